"""C03 — decoded genotypes follow nearest-mutation inheritance and the missing-data rules.

Oracle: `GenoRef` (below) evaluates, for every (site, node), the derived state of the nearest mutation on
the path towards the root (lib.model.allele_at) and the missing rule (lib.model.is_missing), from the
row model only.  Every public way of decoding genotypes is then compared with it:

  variants()            samples x isolated_as_missing (+ deprecated impute_missing_data) x alleles x copy x left/right
  Variant.decode()      one Variant object, sites decoded forward / reversed / random / repeated / far jumps /
                        with failing decodes in between, two Variants interleaved, frozen copy() snapshots
  genotype_matrix()     same option space; rows also compared with the variants() rows
  haplotypes()          samples x isolated_as_missing x missing_data_character x left/right
  alignments()/as_fasta reference-sequence options x missing_data_character x samples x left/right
  Variant.has_missing_data / num_missing / num_alleles / counts() / frequencies() / states()
  fresh Variant per site    the first decode() of a new Variant seeks from the null tree (either half of the sequence,
                        exactly L/2); positional constructor; decode(site_id=..) / numpy integer ids
  write_fasta           path / pathlib.Path / open text file (as_fasta is the StringIO form)
  as_nexus / write_nexus  the DATA block (alignments with '?' as default missing character), include_alignments
  to_macs               genotype column of every SITE line (renders variants(copy=False))
  argument forms        samples as list / tuple / range / int8..uint64 arrays / strided and read-only views;
                        left/right as float / int / numpy scalars / -0.0; node and site ids around 2^31 and 2^32
                        (must raise, never wrap); the tree sequence itself fresh / pickled / dumped and loaded
  instance classes      lib/props/c03_gen.py: `edge` (sites at 0, exactly L/2, on and just before breakpoints, at the
                        last position; isolated samples with 0/1/2 mutations; 4/5 .. 64/65 distinct states) and `big`
                        (>= 255 children / roots, depth >= 1000, >= 129 states, alleles of >= 256 / 65536 characters)

EITHER zones (documentation leaves them open; both behaviours are accepted):
  E1  which exception class is raised for a documented error (any Exception subclass is accepted).
  E2  a user `alleles` tuple that lacks a state which exists at the site but is carried by none of the
      requested nodes: raising or decoding correctly are both accepted (the docs only define the encoding).
  E3  haplotypes/alignments: a multi-letter / non-ascii / clashing allele at a site *outside* [left, right):
      "tree sequences that include alleles which are not a single character ... will raise" vs. the interval.
  E4  alignments with an explicit reference_sequence and a proper sub-interval: the docs only say "correct
      length"; span-length and full-length strings may each be accepted or rejected, but if accepted the
      output must be the consistent one (span-length: offset from `left`; full-length: sliced).
  E5  degenerate-but-in-range intervals (left == right, left == L, right == 0): error or empty result.
  E6  state of a Variant after a decode() that raised: not inspected; the next successful decode must be right.
  E7  to_macs is not part of the statement: any exception is accepted; when it returns, the genotype strings must
      be the first characters of the reference alleles.
  E8  counts()/frequencies() with a user allele tuple that contains duplicates: only the entries of the DUPLICATED
      strings are open (the returned mapping has one key per string; which occurrence's count it keeps is not
      documented); every other allele and the missing-data entry must be exact.
Allele order beyond index 0 is unspecified: genotypes are compared through allele strings.
"""
import collections
import io
import logging
import math
import os
import pathlib
import pickle
import tempfile
import warnings

import numpy as np
import tskit

from lib import gen
from lib.harness import case_rng
from lib.model import NODE_IS_SAMPLE, NULL, allele_at, forest, is_missing, sort_edges_key
from lib.props import c03_gen
from lib.tsk import to_ts

ID = "C03"

logging.disable(logging.WARNING)  # Variant.frequencies logs a warning for every all-missing site

END = object()


def _mix(k):
    """Deterministic scrambling of the case number: the family of a case must not resonate with the number of
    worker shards (case idx is dealt out modulo 1..16), so fixed periods are avoided."""
    x = (k * 0x9E3779B1 + 0x7F4A7C15) & 0xFFFFFFFF
    x ^= x >> 15
    x = (x * 0x85EBCA6B) & 0xFFFFFFFF
    x ^= x >> 13
    return x % 1000


# per mille of the case stream: fixed shares, so that the rare-trigger families are frequent on a loaded machine too
SHARES = [("msprime", 20), ("big", 15), ("edge", 230), ("align", 255), ("walk", 480)]


def case_kind(k):
    x = _mix(k)
    for name, share in SHARES:
        if x < share:
            return name
        x -= share
    return "walk"


def cases(tier, seed):
    n = 60000 if tier == "quick" else 6000000
    for k in range(n):
        yield {"gen": case_kind(k), "k": k}


# ------------------------------------------------------------------------------------ reference


class GenoRef:
    """Per (site, node) allele and missing flag, straight from the row model.

    Small models: lib.model.allele_at / is_missing (walk up from every node).  Large models (`fast=True`):
    c03_gen.fast_site_states (one top-down pass per site, written from the same definition).  `selfcheck` evaluates
    both and raises (harness error, never a verdict) if the two references disagree."""

    def __init__(self, m, fast=False, selfcheck=False):
        self.m = m
        n = m.num_nodes
        self.n = n
        self.samples = m.samples()
        self.sample_set = set(self.samples)
        self.sites = []
        by_site = collections.defaultdict(list)
        for mu in m.mutations:
            by_site[mu[0]].append(mu[2])
        for j, (pos, anc, _) in enumerate(m.sites):
            states = [anc] + by_site.get(j, [])
            if fast:
                allele, missing = c03_gen.fast_site_states(m, j)
            else:
                fr = forest(m, pos)
                allele = [allele_at(m, fr, j, u) for u in range(n)]
                missing = [is_missing(m, fr, j, u) for u in range(n)]
                if selfcheck and (allele, missing) != c03_gen.fast_site_states(m, j):
                    raise AssertionError(f"the two reference evaluations disagree at site {j}")
            self.sites.append({
                "pos": pos,
                "anc": anc,
                "states": set(states),
                "allele": allele,
                "missing": missing,
            })
        if fast:
            self.isolated_any = c03_gen.any_isolated_sample(m)
        else:
            bps = m.breakpoints()
            self.isolated_any = False
            for a, b in zip(bps, bps[1:]):
                fr = forest(m, (a + b) / 2)
                if any(fr.is_isolated(u) for u in self.samples):
                    self.isolated_any = True
                    break
        coords = [m.L] + [s[0] for s in m.sites]
        for e in m.edges:
            coords += [e[0], e[1]]
        for g in m.migrations:
            coords += [g[0], g[1]]
        self.discrete = all(float(c).is_integer() for c in coords)

    def sites_in(self, lo, hi):
        return [j for j, s in enumerate(self.sites) if lo <= s["pos"] < hi]

    def expected(self, j, S, iam):
        s = self.sites[j]
        al = [s["allele"][u] for u in S]
        mi = [bool(iam and s["missing"][u]) for u in S]
        return al, mi


def model_features(m, R):
    tags = set()
    L = m.L
    bps = set(m.breakpoints()) - {0.0, L}
    for j, s in enumerate(R.sites):
        parent = m.forest_at(s["pos"])
        has_child = set(parent.values())
        if not parent:
            tags.add("site-in-gap")
        pos = s["pos"]
        if pos == 0:
            tags.add("site-at-0")
        if pos == L / 2:
            tags.add("site-at-exactly-half-L")
        if pos in bps:
            tags.add("site-on-breakpoint")
        if any(pos < b and (pos + 1 == b or math.nextafter(pos, L) == b) for b in bps):
            tags.add("site-just-before-breakpoint")
        if pos + 1 == L or math.nextafter(pos, 2 * L) == L:
            tags.add("site-at-last-position")
        ks = m.site_mutations(j)
        if not ks:
            tags.add("site-without-mutation")
        seen = collections.Counter()
        on_isolated = collections.Counter()
        for k in ks:
            _, u, d, p, _, _ = m.mutations[k]
            seen[d] += 1
            if u not in parent:
                tags.add("mutation-above-root")
            if m.is_sample(u) and u not in parent and u not in has_child:
                tags.add("mutation-on-isolated-sample")
                on_isolated[u] += 1
            prev = m.mutations[p][2] if p != NULL else s["anc"]
            if prev == d:
                tags.add("silent-mutation")
            elif d == s["anc"]:
                tags.add("back-mutation")
            if p != NULL and m.mutations[p][1] == u:
                tags.add("several-mutations-one-branch")
        if any(c > 1 for c in on_isolated.values()):
            tags.add("several-mutations-on-one-isolated-sample")
        if any(c > 1 for c in seen.values()):
            tags.add("recurrent-mutation")
        if any(len(a) > 1 for a in s["states"]):
            tags.add("multi-char-allele")
        if "" in s["states"]:
            tags.add("empty-allele")
        for lim in (4, 8, 16, 32, 64, 128, 256):
            if len(s["states"]) > lim:
                tags.add(f"states-at-one-site>{lim}")
            elif len(s["states"]) == lim:
                tags.add(f"states-at-one-site=={lim}")
        for lim in (256, 65536):
            if any(len(a) >= lim for a in s["states"]):
                tags.add(f"allele-length>={lim}")
        if any(s["missing"][u] for u in R.samples):
            tags.add("site-with-missing-data")
        elif on_isolated:
            # isolated samples exist at the site but each of them carries a mutation: nothing is missing
            tags.add("site-all-isolated-samples-rescued-by-mutations")
    return tags


def big_features(m):
    """Structure tags of a large instance (gen.topo_tags is quadratic in the number of samples)."""
    tags = set(m.tags)
    fan = collections.Counter()
    bps = m.breakpoints()
    depth_max = 0
    roots_max = 0
    for a, b in zip(bps, bps[1:]):
        parent = m.forest_at((a + b) / 2)
        fan = collections.Counter(parent.values())
        depth = {}
        for u in sorted(range(m.num_nodes), key=lambda v: -m.nodes[v][1]):
            depth[u] = depth[parent[u]] + 1 if u in parent else 0
        depth_max = max(depth_max, max(depth.values()))
        roots_max = max(roots_max, sum(1 for u in m.samples() if u not in parent))
        if fan and max(fan.values()) >= 255:
            tags.add("fanout>=255")
        if fan and max(fan.values()) >= 256:
            tags.add("fanout>=256")
    if depth_max >= 255:
        tags.add("depth>=255")
    if depth_max >= 1000:
        tags.add("depth>=1000")
    if roots_max >= 256:
        tags.add("sample-roots>=256")
    if len(m.samples()) >= 256:
        tags.add("samples>=256")
    if len(m.samples()) >= 32768:
        tags.add("samples>=32768")
    return tags


# ------------------------------------------------------------------------------------ generators


def repair_isolated(rng, m):
    """Give every isolated sample a parent (or demote it) so alignments() is defined."""
    bps = m.breakpoints()
    nodes = list(m.nodes)
    new = []
    for a, b in zip(bps, bps[1:]):
        fr = forest(m, (a + b) / 2)
        for u in range(m.num_nodes):
            if not (nodes[u][0] & NODE_IS_SAMPLE) or not fr.is_isolated(u):
                continue
            older = [v for v in range(m.num_nodes) if m.time(v) > m.time(u)]
            if older:
                new.append((a, b, rng.choice(older), u, b""))
            else:
                nodes[u] = (nodes[u][0] & ~NODE_IS_SAMPLE,) + nodes[u][1:]
    m.nodes = nodes
    m.edges = sorted(list(m.edges) + new, key=sort_edges_key(m))
    return m


REF_ALPHABET = "acgtnxyz"
MANY_ALLELES = list("ACGTRYKMSWBDHVXZ")


def build_msprime(rng):
    """Coalescent with recombination + finite-sites mutations (recurrent/back mutations, correct parents)."""
    import msprime

    from lib.tsk import from_tables

    L = rng.choice([10, 20, 50])
    ts = msprime.sim_ancestry(samples=rng.randint(2, 6), ploidy=rng.choice([1, 2]), sequence_length=L,
                              recombination_rate=rng.choice([0.0, 0.05, 0.2]), random_seed=rng.randint(1, 2 ** 31))
    model = rng.choice([msprime.JC69(), msprime.BinaryMutationModel(), msprime.HKY(kappa=2.0)])
    ts = msprime.sim_mutations(ts, rate=rng.choice([0.01, 0.05, 0.2]), model=model,
                               random_seed=rng.randint(1, 2 ** 31))
    m = from_tables(ts.dump_tables())
    m.provenances = []
    m.schemas = {}
    m.metadata_schema = ""
    m.tags.add("mutation-times")
    return m


def build(case):
    rng = case_rng(case)
    if case["gen"] == "msprime":
        return rng, build_msprime(rng)
    if case["gen"] == "edge":
        return rng, c03_gen.build_edge(rng)
    if case["gen"] == "big":
        return rng, c03_gen.build_big(rng, allow_huge=case.get("tier") == "thorough")
    if case["gen"] == "align":
        L = rng.choice([2.0, 4.0, 8.0, 10.0, 16.0])
        m = gen.gen_topology(rng, n=rng.randint(2, 9), max_bp=4, L=L, discrete=True, gaps=False,
                             sample_mode=rng.choice(["young", "young", "all", "any", "few"]))
        if rng.random() < 0.88:
            repair_isolated(rng, m)
        if rng.random() < 0.3:
            gen.decorate_pops_inds(rng, m)
        r = rng.random()
        alleles = gen.SIMPLE_ALLELES if r < 0.6 else (["A", "C", "G", "T", "N", "-", "a"] if r < 0.8 else None)
        gen.decorate_sites(rng, m, max_sites=rng.choice([3, 6, int(L)]), alleles=alleles, discrete=True)
        r = rng.random()
        n = int(L)
        if r < 0.35:
            m.refseq = None
        elif r < 0.75:
            m.refseq = {"data": "".join(rng.choice(REF_ALPHABET) for _ in range(n))}
        elif r < 0.83:
            m.refseq = {"data": "".join(rng.choice(REF_ALPHABET) for _ in range(rng.randint(0, n - 1)))}
        elif r < 0.92:
            m.refseq = {"data": "".join(rng.choice(REF_ALPHABET) for _ in range(n + rng.randint(1, 3)))}
        else:
            m.refseq = {"data": None, "url": "http://example.com/ref"}
    else:
        big = rng.random() < 0.2
        huge = big and case.get("tier") == "thorough" and rng.random() < 0.3
        discrete = rng.random() < 0.4
        m = gen.gen_topology(rng, max_nodes=40 if huge else 20 if big else 9,
                             max_bp=24 if huge else 10 if big else 5, discrete=discrete)
        if rng.random() < 0.4:
            gen.decorate_pops_inds(rng, m)
        r = rng.random()
        if r < 0.5:
            pool = gen.SIMPLE_ALLELES
        elif r < 0.62:
            pool = ["0", "1"]
        elif r < 0.8:
            pool = gen.ALLELES
        elif r < 0.9:
            pool = MANY_ALLELES  # > 4 and > 8 distinct states at one site: the allele table has to grow
        else:
            pool = ["A", "C", "G", "T", "AC", ""]
        many = pool is MANY_ALLELES or rng.random() < 0.1
        gen.decorate_sites(rng, m, max_sites=30 if huge else 12 if big else 6, alleles=pool, discrete=discrete,
                           max_muts=12 if many else 4)
    return rng, m


# ------------------------------------------------------------------------------------ helpers


# The deprecated impute_missing_data argument warns on every call; the worker process is ours, so the filter is set
# once instead of in a context manager around each of the ~100 calls per case.
warnings.simplefilter("ignore")


def attempt(fn):
    try:
        return True, fn()
    except Exception as e:  # noqa: BLE001 - deciding explicitly below
        return False, e


class Lazy:
    """A call description that is only rendered (numpy reprs!) when a violation message needs it."""

    def __init__(self, name, kw):
        self.name = name
        self.kw = kw

    def __str__(self):
        return f"{self.name}({self.kw})"

    def __format__(self, spec):
        return str(self)


class LazyF(Lazy):
    def __init__(self, fmt, *args):
        self.fmt = fmt
        self.args = args

    def __str__(self):
        return self.fmt.format(*self.args)

    def __add__(self, other):
        return LazyF("{}{}", self, other)


def exc_name(e):
    return type(e).__name__


class Mon:
    """Bundles ctx + model for violation records."""

    def __init__(self, ctx, m, R):
        self.ctx = ctx
        self.m = m
        self.R = R
        self._detail = None
        self.force = None  # "default" | "all-nodes": consumed by the next new_request()
        self._tick = 0

    def tick(self):
        self._tick += 1
        return self._tick

    def bad(self, key, msg):
        if self._detail is None:
            self._detail = {"model": self.m.to_json()}
        self.ctx.violation(key, msg, self._detail)

    def decide(self, api, ok, val, must, may, call):
        """Common error protocol.  Returns True when `val` is a normal result to be compared."""
        if must:
            self.ctx.count(f"{api}:error-predicted")
            if ok:
                self.bad(f"{api}/error-not-raised/{sorted(must)[0]}",
                         f"{call} returned normally but the documentation predicts an error ({sorted(must)})")
            return False
        if not ok:
            if may:
                self.ctx.count(f"{api}:either-zone-error")
                return False
            self.bad(f"{api}/unexpected-error/{exc_name(val)}", f"{call} raised {exc_name(val)}: {val}")
            return False
        if may:
            self.ctx.count(f"{api}:either-zone-result")
        return True


# ids that must be refused and must never wrap around into a valid node: 2^31-1, 2^31, 2^32 + u, -2^31, -2^32 + u
def far_out_of_bounds(rng, n):
    u = rng.randrange(n)
    return rng.choice([2 ** 31 - 1, 2 ** 31, 2 ** 31 + u, 2 ** 32 + u, 2 ** 32 - 1, -2 ** 31, -2 ** 31 - 1,
                       -2 ** 32 + u, 2 ** 63 - 1])


def pick_samples(rng, m, prefer_samples=False):
    """(kind, S) — S is the node list to pass (None = default)."""
    n = m.num_nodes
    samples = m.samples()
    r = rng.random()
    if prefer_samples and samples and r >= 0.22 and r < 0.72 and rng.random() < 0.7:
        r = 0.3 if rng.random() < 0.7 else 0.8
    if r < 0.22:
        return "default", None
    if r < 0.42 and samples:
        return "sample-subset-permuted", rng.sample(samples, rng.randint(1, len(samples)))
    if r < 0.52:
        return "single-node", [rng.randrange(n)]
    if r < 0.72:
        return "any-nodes", rng.sample(range(n), rng.randint(1, n))
    if r < 0.78:
        return "empty", []
    if r < 0.90 and samples:
        return "all-samples-explicit", list(samples)
    if r < 0.95:
        S = rng.sample(range(n), min(n, rng.randint(1, 3)))
        S.insert(rng.randint(0, len(S)), rng.choice(S))
        return "duplicate", S
    S = rng.sample(range(n), rng.randint(0, min(n, 2)))
    if rng.random() < 0.4:
        S.insert(rng.randint(0, len(S)), far_out_of_bounds(rng, n))
        return "out-of-bounds-far", S
    S.insert(rng.randint(0, len(S)), rng.choice([-1, -2, n, n + 3]))
    return "out-of-bounds", S


def samples_form(rng, S, ctx=None):
    """The same node list in one of the argument forms an `array_like` may take."""
    if S is None:
        return None
    lo, hi = (min(S), max(S)) if S else (0, 0)
    forms = ["list", "list", "tuple", "int32", "int32", "int64"]
    if -2 ** 31 <= lo and hi < 2 ** 31:
        forms += ["strided-int32", "readonly-int32"]
    if -2 ** 63 <= lo and hi < 2 ** 63:
        forms += ["strided-int64"]
    else:
        forms = ["list", "tuple"]
    if -128 <= lo and hi < 128:
        forms.append("int8")
    if -2 ** 15 <= lo and hi < 2 ** 15:
        forms.append("int16")
    if lo >= 0 and S:
        if hi < 256:
            forms.append("uint8")
        if hi < 2 ** 32:
            forms.append("uint32")
        if hi < 2 ** 64:
            forms.append("uint64")
    if S and list(S) == list(range(S[0], S[0] + len(S))):
        forms += ["range", "range"]
    if not S:
        forms += ["empty-float64", "empty-float64"]
    if not (-2 ** 31 <= lo and hi < 2 ** 31):
        forms = [f for f in forms if f not in ("int32", "int8", "int16")]
    f = rng.choice(forms)
    if ctx is not None:
        ctx.feature(f"samples-as:{f}")
    if f == "list":
        return list(S)
    if f == "tuple":
        return tuple(S)
    if f == "range":
        return range(S[0], S[0] + len(S))
    if f == "empty-float64":
        return np.array([])
    if f in ("strided-int32", "strided-int64"):
        dt = np.int32 if f == "strided-int32" else np.int64
        a = np.full(2 * len(S) + 1, 123456789, dtype=dt)  # poison between the elements
        a[1::2] = S
        return a[1::2]
    if f == "readonly-int32":
        a = np.array(S, dtype=np.int32)
        a.flags.writeable = False
        return a
    return np.array(S, dtype=getattr(np, f))


def pick_iam(rng):
    """(kwargs, effective isolated_as_missing)"""
    r = rng.random()
    if r < 0.3:
        return {}, True
    if r < 0.55:
        return {"isolated_as_missing": True}, True
    if r < 0.85:
        return {"isolated_as_missing": False}, False
    if r < 0.9:
        return {"impute_missing_data": True}, False
    if r < 0.94:
        return {"impute_missing_data": False}, True
    v = rng.random() < 0.5
    return {"isolated_as_missing": v, "impute_missing_data": rng.random() < 0.5}, v


def pick_user_alleles(rng, R, p_none=0.5):
    """(kind, tuple or None)"""
    if rng.random() < p_none:
        return "none", None
    states = sorted(set().union(*[s["states"] for s in R.sites])) if R.sites else []
    extra = [x for x in ["A", "C", "G", "T", "zz", "", "Q"] if x not in states]
    r = rng.random()
    if r < 0.3 or not states:
        ua = states + rng.sample(extra, rng.randint(0 if states else 1, min(3, len(extra))))
        rng.shuffle(ua)
        return "superset-permuted", tuple(ua)
    if r < 0.5:
        ua = states + rng.sample(extra, rng.randint(0, 2))
        rng.shuffle(ua)
        for _ in range(rng.randint(1, 3)):
            ua.insert(rng.randint(0, len(ua)), rng.choice(ua))
        return "with-duplicates", tuple(ua)
    if r < 0.8:
        ua = list(states)
        ua.remove(rng.choice(ua))
        ua += rng.sample(extra, rng.randint(0 if ua else 1, 2))
        rng.shuffle(ua)
        return "missing-one", tuple(ua)
    if r < 0.9:
        if set(states) <= {"0", "1"} and rng.random() < 0.7:
            return "01-constant", tskit.ALLELES_01
        return "ACGT-constant", tskit.ALLELES_ACGT
    return "empty-tuple", ()


def ctor_errors(R, S, iam):
    must = set()
    if S is None:
        return must
    if len(set(S)) != len(S):
        must.add("duplicate-samples")
    if any(u < 0 or u >= R.n for u in S):
        must.add("node-out-of-bounds")
    elif iam and any(u not in R.sample_set for u in S):
        must.add("non-sample-with-isolated_as_missing")
    return must


def site_allele_status(R, j, S, iam, UA):
    """'ok' | 'must' | 'may' for decoding site j with user alleles UA (E2)."""
    if UA is None:
        return "ok"
    al, mi = R.expected(j, S, iam)
    carried = {a for a, x in zip(al, mi) if not x}
    if any(a not in UA for a in carried):
        return "must"
    if any(a not in UA for a in R.sites[j]["states"]):
        return "may"
    return "ok"


def pick_interval(rng, R, integer=False):
    """(kwargs, lo, hi, status) status in ok|must|may."""
    L = R.m.L
    r = rng.random()
    if r < 0.32:
        return {}, 0.0, L, "ok"
    if r < 0.37:
        # the whole sequence given explicitly (variants() has a fast path for it)
        f = rng.choice([float, int]) if float(L).is_integer() else float
        return {"left": f(0), "right": f(L)}, 0.0, L, "ok"
    cand = [0.0, L]
    pos = [s["pos"] for s in R.sites]
    cand += pos
    cand += [(a + b) / 2 for a, b in zip(pos, pos[1:])]
    cand += [math.nextafter(p, L) for p in pos] + [math.nextafter(p, 0) for p in pos if p > 0]
    cand += [rng.randint(0, 64) * L / 64 for _ in range(2)]
    cand += [float(rng.randint(0, int(L)))]
    if integer and rng.random() < 0.85:
        cand = sorted({float(math.floor(c)) for c in cand} | {L})
    kw = {}
    mode = rng.random()
    if mode < 0.08:
        bad = rng.choice([("left", -1.0), ("left", L), ("left", L + 1), ("right", L + 1), ("right", 0.0),
                          ("right", -1.0), ("left", float("nan")), ("right", float("nan")), ("swap", None),
                          ("eq", None)])
        if bad[0] == "swap":
            a, b = rng.choice(cand), rng.choice(cand)
            if a == b:
                return {}, 0.0, L, "ok"
            kw = {"left": max(a, b), "right": min(a, b)}
        elif bad[0] == "eq":
            a = rng.choice(cand)
            kw = {"left": a, "right": a}
        else:
            kw = {bad[0]: bad[1]}
        lo = kw.get("left", 0.0)
        hi = kw.get("right", L)
        clearly = (lo != lo or hi != hi or lo < 0 or hi > L or lo > hi)
        # E5: left == right, left == L, right == 0 are degenerate but inside [0, L]
        return kw, lo, hi, ("must" if clearly else "may")
    if mode < 0.4:
        kw["left"] = rng.choice(cand)
    elif mode < 0.65:
        kw["right"] = rng.choice(cand)
    else:
        a, b = rng.choice(cand), rng.choice(cand)
        kw["left"], kw["right"] = min(a, b), max(a, b)
    lo = kw.get("left", 0.0)
    hi = kw.get("right", L)
    if lo >= hi or lo >= L or hi <= 0:
        return kw, lo, hi, "may"
    r = rng.random()
    if r < 0.3:
        # integers given as Python ints when integral
        kw = {k: (int(v) if float(v).is_integer() else v) for k, v in kw.items()}
    elif r < 0.45:
        # numpy scalars (what positions read from ts.sites_position / ts.breakpoints(as_array=True) are)
        def np_form(v):
            if float(v).is_integer() and rng.random() < 0.5:
                return rng.choice([np.int64, np.int32, np.uint32])(int(v))
            return np.float32(v) if (float(np.float32(v)) == v and rng.random() < 0.3) else np.float64(v)
        kw = {k: np_form(v) for k, v in kw.items()}
    elif r < 0.5 and kw.get("left") == 0:
        kw["left"] = -0.0
    return kw, lo, hi, "ok"


# ------------------------------------------------------------------------------------ Variant oracle


def read_variant(v, full=True):
    """Snapshot of the public attributes.  `Variant.site` / `Variant.position` build a Site object with all its Mutation
    objects on every access (the dominant cost with 65 mutations at a site): they are read on a third of the calls,
    `Variant.index` (the same id) always."""
    g = v.genotypes
    d = {
        "alleles": tuple(v.alleles),
        "g": np.array(g),
        "dtype": str(g.dtype),
        "samples": [int(x) for x in v.samples],
        "has_missing": v.has_missing_data,
        "num_missing": int(v.num_missing),
        "num_alleles": int(v.num_alleles),
        "iam": bool(v.isolated_as_missing),
        "index": v.index,
    }
    if full:
        site = v.site
        d["site"] = site.id
        d["position"] = v.position if d["index"] % 2 else site.position
    else:
        d["site"] = d["index"]
        d["position"] = None
    return d


def check_variant(mon, v, j, S, iam, UA, api, how, deep_rng=None):
    """Compare one decoded Variant with the reference.  Returns the snapshot (or None)."""
    R = mon.R
    ctx = mon.ctx
    ok, d = attempt(lambda: read_variant(v, full=mon.tick() % 3 == 0))
    ctx.count(f"{api}:variant-checked")
    if not ok:
        mon.bad(f"{api}/accessor-raised/{exc_name(d)}", f"{how}: reading the decoded variant at site {j} raised {d!r}")
        return None
    s = R.sites[j]
    al, mi = R.expected(j, S, iam)
    w = LazyF("{} site={} nodes={} isolated_as_missing={} alleles={}", how, j, S, iam, UA)
    if d["site"] != j or d["index"] != j or (d["position"] is not None and d["position"] != s["pos"]):
        mon.bad(f"{api}/site-id", f"{w}: variant.site.id={d['site']} index={d['index']} position={d['position']}")
        return d
    if d["samples"] != list(S):
        mon.bad(f"{api}/samples", f"{w}: variant.samples={d['samples']}")
        return d
    g = d["g"]
    alleles = d["alleles"]
    if g.shape != (len(S),) or d["dtype"] != "int32":
        mon.bad(f"{api}/genotypes-shape", f"{w}: genotypes shape {g.shape} dtype {d['dtype']}")
        return d
    any_missing = any(mi)
    real = alleles[:-1] if (alleles and alleles[-1] is None) else alleles
    # None is the last element iff missing data is present
    if (len(alleles) > 0 and alleles[-1] is None) != any_missing or any(a is None for a in real):
        mon.bad(f"{api}/none-last-iff-missing", f"{w}: alleles={alleles} but reference missing flags={mi}")
    if UA is None:
        if len(real) == 0 or real[0] != s["anc"]:
            mon.bad(f"{api}/alleles0-not-ancestral", f"{w}: alleles={alleles} ancestral_state={s['anc']!r}")
        if len(set(real)) != len(real):
            mon.bad(f"{api}/alleles-duplicate", f"{w}: alleles={alleles}")
        # Variant.num_alleles docstring: states of mutations not inherited by any sample are counted too
        if set(real) != s["states"]:
            mon.bad(f"{api}/alleles-set", f"{w}: alleles={alleles} states at the site={sorted(s['states'])}")
    else:
        if tuple(real) != tuple(UA):
            mon.bad(f"{api}/user-alleles-changed", f"{w}: alleles={alleles}")
    first_index = {}
    for i, a in enumerate(UA or ()):
        first_index.setdefault(a, i)
    for k, u in enumerate(S):
        gk = int(g[k])
        if mi[k]:
            if gk != -1:
                mon.bad(f"{api}/missing-not-marked", f"{w}: node {u} is an isolated sample without a mutation "
                        f"above it but genotype={gk} alleles={alleles}")
                break
            continue
        if gk == -1:
            mon.bad(f"{api}/spurious-missing", f"{w}: node {u} genotype=-1, reference allele {al[k]!r}")
            break
        if gk < 0 or gk >= len(real):
            mon.bad(f"{api}/genotype-out-of-range", f"{w}: node {u} genotype={gk} alleles={alleles}")
            break
        if real[gk] != al[k]:
            mon.bad(f"{api}/genotype", f"{w}: node {u} decoded {real[gk]!r} (genotype {gk}, alleles {alleles}), "
                    f"nearest-mutation rule gives {al[k]!r}; all genotypes={g.tolist()} expected alleles={al} "
                    f"missing={mi}")
            break
        if UA is not None and gk != first_index.get(al[k]):
            mon.bad(f"{api}/user-alleles-index", f"{w}: node {u} genotype={gk}, first occurrence of {al[k]!r} in "
                    f"{UA} is {first_index.get(al[k])}")
            break
    if d["has_missing"] != any_missing:
        mon.bad(f"{api}/has_missing_data", f"{w}: has_missing_data={d['has_missing']} expected {any_missing}")
    if d["num_missing"] != sum(mi):
        mon.bad(f"{api}/num_missing", f"{w}: num_missing={d['num_missing']} expected {sum(mi)}")
    if d["num_alleles"] != len(real):
        mon.bad(f"{api}/num_alleles", f"{w}: num_alleles={d['num_alleles']} alleles={alleles}")
    if d["iam"] != bool(iam):
        mon.bad(f"{api}/isolated_as_missing-attr", f"{w}: variant.isolated_as_missing={d['iam']}")
    if deep_rng is not None and len(S) * max((len(a) for a in real), default=0) <= 200000:
        # (states() materialises len(S) fixed-width strings of the longest allele)
        check_variant_stats(mon, v, d, al, mi, UA, api, w, deep_rng)
    return d


def check_variant_stats(mon, v, d, al, mi, UA, api, w, rng):
    """counts(), frequencies(), states() against the reference alleles."""
    ctx = mon.ctx
    alleles = d["alleles"]
    real = alleles[:-1] if (alleles and alleles[-1] is None) else alleles
    n = len(al)
    exp = collections.Counter()
    for a in real:
        exp[a] += 0
    for a, x in zip(al, mi):
        exp[None if x else a] += 1
    dup = UA is not None and len(set(UA)) != len(UA)
    # ---- counts
    ok, c = attempt(lambda: v.counts())
    ctx.count(f"{api}:counts")
    if not ok:
        mon.bad(f"{api}/counts-raised/{exc_name(c)}", f"{w}: counts() raised {c!r}")
    else:
        got = {k: int(x) for k, x in c.items()}
        if got != dict(exp):
            # E8: with a user allele tuple containing duplicates the mapping returned by counts() keeps the count of
            # the LAST occurrence (zero, genotypes use the first).  Only the duplicated strings are open.
            open_keys = {a for a in real if real.count(a) > 1} if dup else set()
            if set(got) == set(exp) and all(got[a] == exp[a] for a in exp if a not in open_keys):
                ctx.count("either:counts-with-duplicate-user-alleles")
            else:
                mon.bad(f"{api}/counts", f"{w}: counts()={got} expected {dict(exp)} (genotypes {d['g'].tolist()}, "
                        f"alleles {alleles}; entries of duplicated strings {sorted(open_keys)} are not compared)")
    # ---- frequencies
    rm = rng.choice([None, False, True])
    ok, f = attempt(lambda: v.frequencies() if rm is None else v.frequencies(remove_missing=rm))
    ctx.count(f"{api}:frequencies")
    if not ok:
        mon.bad(f"{api}/frequencies-raised/{exc_name(f)}", f"{w}: frequencies({rm}) raised {f!r}")
    else:
        total = n - (sum(mi) if rm else 0)
        expf = {}
        for a, cnt in exp.items():
            if a is None and rm:
                continue
            expf[a] = (cnt / total) if total > 0 else float("nan")
        same = set(f) == set(expf) and all(
            (math.isnan(expf[a]) and math.isnan(float(f[a]))) or abs(float(f[a]) - expf[a]) <= 1e-12 for a in expf)
        if not same:
            open_keys = {a for a in real if real.count(a) > 1} if dup else set()
            if set(f) == set(expf) and all(
                    (math.isnan(expf[a]) and math.isnan(float(f[a]))) or abs(float(f[a]) - expf[a]) <= 1e-12
                    for a in expf if a not in open_keys):
                ctx.count("either:counts-with-duplicate-user-alleles")
            else:
                mon.bad(f"{api}/frequencies", f"{w}: frequencies(remove_missing={rm})={dict(f)} expected {expf} "
                        f"(entries of duplicated strings {sorted(open_keys)} are not compared)")
    # ---- states
    mds = rng.choice([None, None, "N", "?", "missing", "", "A", "T", 5])
    ok, st = attempt(lambda: v.states() if mds is None else v.states(missing_data_string=mds))
    ctx.count(f"{api}:states")
    eff = "N" if mds is None else mds
    if not isinstance(eff, str):
        if ok:
            mon.bad(f"{api}/states-error-not-raised/non-string", f"{w}: states({mds!r}) returned {st!r}")
        return
    if any(mi) and eff in real:
        if ok:
            mon.bad(f"{api}/states-error-not-raised/clash", f"{w}: states({mds!r}) returned {st!r} although "
                    f"{eff!r} is an allele {alleles}")
        return
    if not ok:
        mon.bad(f"{api}/states-raised/{exc_name(st)}", f"{w}: states({mds!r}) raised {st!r}")
        return
    exps = [eff if x else a for a, x in zip(al, mi)]
    if [str(x) for x in st] != exps:
        mon.bad(f"{api}/states", f"{w}: states({mds!r})={[str(x) for x in st]} expected {exps}")


def same_snapshot(a, b):
    return (a["site"] == b["site"] and a["alleles"] == b["alleles"] and a["samples"] == b["samples"]
            and np.array_equal(a["g"], b["g"]) and a["has_missing"] == b["has_missing"])


# ------------------------------------------------------------------------------------ monitors


def new_request(rng, mon, p_ua=0.5):
    R = mon.R
    kind, S = pick_samples(rng, R.m)
    iam_kw, iam = pick_iam(rng)
    if mon.force == "default":
        kind, S = "default", None
    elif mon.force == "all-nodes":
        kind, S = "all-nodes-permuted", rng.sample(range(R.n), R.n)
        iam_kw, iam = {"isolated_as_missing": False}, False
    mon.force = None
    if S is not None and iam and any(u not in R.sample_set for u in S) and rng.random() < 0.75:
        iam_kw, iam = rng.choice([({"isolated_as_missing": False}, False), ({"impute_missing_data": True}, False)])
    ua_kind, UA = pick_user_alleles(rng, R, p_none=1 - p_ua)
    mon.ctx.feature(f"samples:{kind}")
    mon.ctx.feature(f"alleles:{ua_kind}")
    mon.ctx.feature("iam:" + ",".join(f"{k}={v}" for k, v in sorted(iam_kw.items())) if iam_kw else "iam:default")
    nodes = list(R.samples) if S is None else list(S)
    must = ctor_errors(R, S, iam)
    if UA is not None and len(UA) == 0:
        must.add("empty-allele-tuple")
    kw = dict(iam_kw)
    if S is not None:
        kw["samples"] = samples_form(rng, S, mon.ctx)
    if UA is not None:
        kw["alleles"] = UA
    return {"kw": kw, "S": S, "nodes": nodes, "iam": iam, "UA": UA, "must": must}


def mon_variants(rng, mon, ts):
    R, ctx = mon.R, mon.ctx
    rq = new_request(rng, mon)
    ikw, lo, hi, istat = pick_interval(rng, R)
    kw = dict(rq["kw"], **ikw)
    cp = rng.choice([None, None, True, False])
    if cp is not None:
        kw["copy"] = cp
    call = Lazy("variants", kw)
    must = set(rq["must"])
    may = set()
    if istat == "must":
        must.add("invalid-interval")
    elif istat == "may":
        may.add("degenerate-interval")
    ctx.count("variants:calls")
    ok, it = attempt(lambda: ts.variants(**kw))
    if not ok:
        mon.decide("variants", ok, it, must, may, call)
        return
    expected_sites = R.sites_in(lo, hi) if lo < hi else []
    kept = []
    first_obj = None
    n_yield = 0
    for j in expected_sites + [None]:
        ok, v = attempt(lambda: next(it, END))
        if must:
            mon.decide("variants", ok, v, must, may, call)
            return
        if not ok and may and n_yield == 0:
            mon.decide("variants", ok, v, must, may, call)
            return
        if j is None:
            if not ok:
                mon.bad(f"variants/unexpected-error/{exc_name(v)}", f"{call}: raised {v!r} after the last site")
            elif v is not END:
                mon.bad("variants/site-range", f"{call}: yielded an extra variant (site {getattr(v, 'index', '?')}) "
                        f"after sites {expected_sites} in [{lo},{hi})")
            break
        st = site_allele_status(R, j, rq["nodes"], rq["iam"], rq["UA"])
        if st == "must":
            ctx.count("variants:error-predicted")
            if ok:
                mon.bad("variants/error-not-raised/allele-not-in-user-list", f"{call}: site {j} decoded although a "
                        f"carried allele is not in {rq['UA']}; got {getattr(v, 'alleles', None)}")
            return
        if not ok:
            if st == "may":
                ctx.count("variants:either-zone-error")
                return
            mon.bad(f"variants/unexpected-error/{exc_name(v)}", f"{call}: raised {v!r} at site {j}")
            return
        if v is END:
            mon.bad("variants/site-range", f"{call}: stopped before site {j}; expected sites {expected_sites} "
                    f"for [{lo},{hi}) positions {[s['pos'] for s in R.sites]}")
            return
        n_yield += 1
        if cp is False:
            if first_obj is None:
                first_obj = v
            elif v is not first_obj:
                mon.bad("variants/copy-false-identity", f"{call}: copy=False yielded a different object at site {j}")
        d = check_variant(mon, v, j, rq["nodes"], rq["iam"], rq["UA"], "variants", call,
                          deep_rng=rng if rng.random() < 0.35 else None)
        if d is not None and d["site"] != j:
            return
        if cp is not False and d is not None:
            kept.append((v, d, j))
    ctx.count("variants:iterations-completed")
    # copies handed out earlier must not have changed while later sites were decoded
    for v, d, j in kept:
        ok, d2 = attempt(lambda: read_variant(v, full=False))
        ctx.count("variants:frozen-copy")
        if not ok or not same_snapshot(d, d2):
            mon.bad("variants/copy-not-frozen", f"{call}: variant yielded for site {j} changed afterwards: "
                    f"{d if ok else None} -> {d2!r}")
            break
    return


def make_variant(rng, ctx, ts, pkw):
    """tskit.Variant(ts, ...) by keyword or (documented parameter order) positionally."""
    if rng.random() < 0.6:
        ctx.feature("Variant-ctor:keyword")
        return tskit.Variant(ts, **pkw)
    order = ["samples", "isolated_as_missing", "alleles"]
    last = max([i for i, k in enumerate(order) if k in pkw], default=-1)
    npos = rng.randint(0, last + 1)
    args = [pkw.get(k) for k in order[:npos]]
    rest = {k: pkw[k] for k in order[npos:] if k in pkw}
    ctx.feature("Variant-ctor:positional")
    return tskit.Variant(ts, *args, **rest)


def do_decode(rng, ctx, v, j):
    r = rng.random()
    if r < 0.6:
        return v.decode(j)
    if r < 0.75:
        ctx.feature("decode-arg:keyword")
        return v.decode(site_id=j)
    ctx.feature("decode-arg:numpy-int")
    return v.decode(rng.choice([np.int32, np.int64, np.uint32, np.uint8 if j < 256 else np.int64])(j))


def bad_site_id(rng, num_sites):
    j = rng.randrange(num_sites) if num_sites else 0
    return rng.choice([-1, num_sites, num_sites + 7, -5, -1, num_sites, 2 ** 31 - 1, 2 ** 31, 2 ** 32 + j,
                       -2 ** 32 + j, 2 ** 63 - 1])


def decode_order(rng, num_sites):
    if num_sites == 0:
        return []
    mode = rng.choice(["forward", "reversed", "random", "repeated", "far-jumps", "zigzag"])
    ids = list(range(num_sites))
    if mode == "forward":
        order = ids
    elif mode == "reversed":
        order = ids[::-1]
    elif mode == "random":
        order = [rng.choice(ids) for _ in range(num_sites + 3)]
    elif mode == "repeated":
        order = []
        for j in rng.sample(ids, min(len(ids), 4)):
            order += [j] * rng.randint(2, 3)
    elif mode == "far-jumps":
        order = []
        lo, hi = 0, num_sites - 1
        while lo <= hi:
            order += [lo, hi]
            lo += 1
            hi -= 1
    else:
        order = []
        for j in ids:
            order += [j, max(0, j - 1), j]
    return mode, order[: 2 * num_sites + 6]


def mon_decode(rng, mon, ts):
    """History checker: one or two Variant objects decoded in arbitrary site order."""
    R, ctx = mon.R, mon.ctx
    nv = 2 if rng.random() < 0.35 else 1
    vs = []
    for _ in range(nv):
        rq = new_request(rng, mon)
        pkw = {k: v for k, v in rq["kw"].items() if k != "impute_missing_data"}
        if "impute_missing_data" in rq["kw"] and "isolated_as_missing" not in rq["kw"]:
            pkw["isolated_as_missing"] = rq["iam"]
        call = Lazy("Variant", pkw)
        ctx.count("decode:constructed")
        ok, v = attempt(lambda: make_variant(rng, ctx, ts, pkw))
        if not mon.decide("decode", ok, v, rq["must"], set(), call):
            continue
        # before the first decode the variant has no site and no genotypes
        ok1, r1 = attempt(lambda: v.genotypes)
        ok2, r2 = attempt(lambda: v.site)
        ctx.count("decode:undecoded-state")
        if ok1 or ok2:
            mon.bad("decode/undecoded-variant-readable", f"{call}: genotypes/site readable before decode(): "
                    f"{r1!r} {r2!r}")
        od = decode_order(rng, len(R.sites))
        if not od:
            continue
        mode, order = od
        ctx.feature(f"decode-order:{mode}")
        vs.append({"v": v, "rq": rq, "call": call, "order": list(order), "copies": [], "hist": []})
    live = [x for x in vs if x["order"]]
    while live:
        x = rng.choice(live)
        v, rq, call = x["v"], x["rq"], x["call"]
        if rng.random() < 0.08:
            # an invalid site id must raise and must not disturb later decodes (E6)
            jbad = bad_site_id(rng, len(R.sites))
            ok, r = attempt(lambda: v.decode(jbad))
            ctx.count("decode:error-predicted")
            x["hist"].append(("bad", jbad))
            if ok:
                mon.bad("decode/error-not-raised/site-out-of-bounds", f"{call}.decode({jbad}) returned normally; "
                        f"num_sites={len(R.sites)}")
            continue
        j = x["order"].pop(0)
        if not x["order"]:
            live = [y for y in live if y is not x]
        x["hist"].append(j)
        how = LazyF("{} decode history {}", call, x["hist"][-8:])
        st = site_allele_status(R, j, rq["nodes"], rq["iam"], rq["UA"])
        ok, r = attempt(lambda: do_decode(rng, ctx, v, j))
        ctx.count("decode:calls")
        if st == "must":
            ctx.count("decode:error-predicted")
            if ok:
                mon.bad("decode/error-not-raised/allele-not-in-user-list", f"{how}: decoded although a carried "
                        f"allele is not in {rq['UA']}: alleles={v.alleles}")
            continue
        if not ok:
            if st == "may":
                ctx.count("decode:either-zone-error")
                continue
            mon.bad(f"decode/unexpected-error/{exc_name(r)}", f"{how}: raised {r!r}")
            continue
        if r is not None:
            mon.bad("decode/return-value", f"{how}: decode returned {r!r}")
        d = check_variant(mon, v, j, rq["nodes"], rq["iam"], rq["UA"], "decode", how,
                          deep_rng=rng if rng.random() < 0.25 else None)
        if d is not None and rng.random() < 0.35:
            ok, c = attempt(lambda: v.copy())
            ctx.count("decode:copy")
            if not ok:
                mon.bad(f"decode/copy-raised/{exc_name(c)}", f"{how}: copy() raised {c!r}")
            else:
                dc = check_variant(mon, c, j, rq["nodes"], rq["iam"], rq["UA"], "copy", how + " copy()",
                                   deep_rng=rng if rng.random() < 0.15 else None)
                if dc is not None:
                    x["copies"].append((c, dc, j))
    for x in vs:
        for c, dc, j in x["copies"]:
            ok, d2 = attempt(lambda: read_variant(c, full=False))
            ctx.count("decode:frozen-copy")
            if not ok or not same_snapshot(dc, d2):
                mon.bad("copy/not-frozen", f"{x['call']} history {x['hist']}: copy() taken at site {j} changed: "
                        f"{dc} -> {d2!r}")
                break
        if x["copies"] and len(R.sites):
            c = x["copies"][0][0]
            ok, r = attempt(lambda: c.decode(0))
            ctx.count("decode:copy-decode-refused")
            if ok:
                mon.bad("copy/decode-not-refused", f"{x['call']}: decode() on a copy() returned normally")


def mon_fresh(rng, mon, ts):
    """A NEW Variant for every site: its first decode() positions the internal tree from the null state
    (tsk_tree_seek_from_null builds the tree from the left for x <= L/2 and from the right otherwise), directly
    at a tree anywhere in the sequence - the decode histories above reach most sites by stepping."""
    R, ctx = mon.R, mon.ctx
    if not R.sites:
        return
    rq = new_request(rng, mon, p_ua=0.25)
    if rq["must"]:
        rq = {"kw": {}, "S": None, "nodes": list(R.samples), "iam": True, "UA": None, "must": set()}
    pkw = {k: v for k, v in rq["kw"].items() if k != "impute_missing_data"}
    if "impute_missing_data" in rq["kw"] and "isolated_as_missing" not in rq["kw"]:
        pkw["isolated_as_missing"] = rq["iam"]
    ids = list(range(len(R.sites)))
    if len(ids) > 8:
        ids = sorted(rng.sample(ids, 8))
    half = R.m.L / 2
    for j in ids:
        call = Lazy(f"first decode({j}) of Variant", pkw)
        ok, v = attempt(lambda: make_variant(rng, ctx, ts, pkw))
        if not ok:
            mon.bad(f"fresh/unexpected-error/{exc_name(v)}", f"{call}: constructor raised {v!r}")
            return
        st = site_allele_status(R, j, rq["nodes"], rq["iam"], rq["UA"])
        ok, r = attempt(lambda: do_decode(rng, ctx, v, j))
        ctx.count("fresh:calls")
        pos = R.sites[j]["pos"]
        ctx.feature("first-decode:" + ("exactly-half-L" if pos == half else "left-half" if pos < half else "right-half"))
        if st == "must":
            ctx.count("fresh:error-predicted")
            if ok:
                mon.bad("fresh/error-not-raised/allele-not-in-user-list", f"{call}: decoded although a carried "
                        f"allele is not in {rq['UA']}: alleles={v.alleles}")
            continue
        if not ok:
            if st == "may":
                ctx.count("fresh:either-zone-error")
                continue
            mon.bad(f"fresh/unexpected-error/{exc_name(r)}", f"{call}: raised {r!r}")
            continue
        check_variant(mon, v, j, rq["nodes"], rq["iam"], rq["UA"], "fresh", call)


def mon_genotype_matrix(rng, mon, ts, variants_rows):
    R, ctx = mon.R, mon.ctx
    rq = new_request(rng, mon, p_ua=0.4)
    call = Lazy("genotype_matrix", rq["kw"])
    must = set(rq["must"])
    may = set()
    for j in range(len(R.sites) if not must else 0):
        st = site_allele_status(R, j, rq["nodes"], rq["iam"], rq["UA"])
        if st == "must":
            must.add("allele-not-in-user-list")
        elif st == "may":
            may.add("unobserved-allele-not-in-user-list")
    ok, G = attempt(lambda: ts.genotype_matrix(**rq["kw"]))
    ctx.count("genotype_matrix:calls")
    if not mon.decide("genotype_matrix", ok, G, must, may, call):
        return
    S = rq["nodes"]
    if not isinstance(G, np.ndarray) or G.shape != (len(R.sites), len(S)) or G.dtype != np.int32:
        mon.bad("genotype_matrix/shape", f"{call}: shape {getattr(G, 'shape', None)} dtype {getattr(G, 'dtype', None)} "
                f"expected ({len(R.sites)}, {len(S)}) int32")
        return
    UA = rq["UA"]
    first_index = {}
    for i, a in enumerate(UA or ()):
        first_index.setdefault(a, i)
    for j in range(len(R.sites)):
        al, mi = R.expected(j, S, rq["iam"])
        row = [int(x) for x in G[j]]
        ctx.count("genotype_matrix:rows")
        anc = R.sites[j]["anc"]
        okrow = True
        g2a, a2g = {}, {}
        for k in range(len(S)):
            if mi[k] != (row[k] == -1):
                okrow = False
            elif not mi[k]:
                if UA is not None:
                    okrow = okrow and row[k] == first_index.get(al[k])
                else:
                    # only index 0 (ancestral) and the equality pattern are fixed without the allele list:
                    # genotype value <-> allele string must be one-to-one within the row
                    okrow = okrow and (row[k] == 0) == (al[k] == anc) and row[k] >= 0
                    okrow = okrow and g2a.setdefault(row[k], al[k]) == al[k] and a2g.setdefault(al[k], row[k]) == row[k]
        if not okrow:
            mon.bad("genotype_matrix/row", f"{call}: row {j} = {row}, reference alleles {al} missing {mi} "
                    f"ancestral {anc!r}")
            return
    return


def mon_matrix_vs_variants(rng, mon, ts):
    """'agree with each other': genotype_matrix rows == variants() genotypes == fresh decode, same options."""
    R, ctx = mon.R, mon.ctx
    rq = new_request(rng, mon, p_ua=0.3)
    if rq["must"]:
        return
    if any(site_allele_status(R, j, rq["nodes"], rq["iam"], rq["UA"]) != "ok" for j in range(len(R.sites))):
        return
    ok, G = attempt(lambda: ts.genotype_matrix(**rq["kw"]))
    ok2, rows = attempt(lambda: [np.array(v.genotypes) for v in ts.variants(**rq["kw"])])
    ctx.count("cross:matrix-vs-variants")
    if not ok or not ok2:
        mon.bad("cross/unexpected-error", f"genotype_matrix/variants({rq['kw']}) raised {G if not ok else rows!r}")
        return
    if len(rows) != G.shape[0] or any(not np.array_equal(G[j], rows[j]) for j in range(len(rows))):
        mon.bad("cross/matrix-vs-variants", f"genotype_matrix({rq['kw']})={G.tolist()} but variants() rows "
                f"{[r.tolist() for r in rows]}")


MDC_CHOICES = [None] * 8 + ["N", "N", "-", "-", "?", "?", "*", "A", "T", "0", "a", "n", "NN", "", "é"]


def allele_problems(R, sites, mdc):
    """Tags of documented haplotype errors caused by the states present at `sites`."""
    out = set()
    for j in sites:
        for a in R.sites[j]["states"]:
            if len(a) != 1:
                out.add("multi-letter-allele")
            elif not a.isascii():
                out.add("non-ascii-allele")
            elif a == mdc:
                out.add("missing-character-clash")
    return out


def mon_haplotypes(rng, mon, ts):
    R, ctx = mon.R, mon.ctx
    rq = new_request(rng, mon, p_ua=0.0)
    ikw, lo, hi, istat = pick_interval(rng, R)
    mdc = rng.choice(MDC_CHOICES)
    kw = dict(rq["kw"], **ikw)
    if mdc is not None:
        kw["missing_data_character"] = mdc
    eff = "N" if mdc is None else mdc
    call = Lazy("haplotypes", kw)
    must = set(rq["must"])
    may = set()
    if istat == "must":
        must.add("invalid-interval")
    elif istat == "may":
        may.add("degenerate-interval")
    if len(eff) != 1 or not eff.isascii():
        must.add("bad-missing-data-character")
    inside = R.sites_in(lo, hi) if lo < hi else []
    outside = [j for j in range(len(R.sites)) if j not in inside]
    must |= allele_problems(R, inside, eff)
    may |= allele_problems(R, outside, eff)  # E3
    ok, H = attempt(lambda: list(ts.haplotypes(**kw)))
    ctx.count("haplotypes:calls")
    if not mon.decide("haplotypes", ok, H, must, may, call):
        return
    S = rq["nodes"]
    exp = []
    for u in S:
        row = []
        for j in inside:
            s = R.sites[j]
            row.append(eff if (rq["iam"] and s["missing"][u]) else s["allele"][u])
        exp.append("".join(row))
    ctx.count("haplotypes:compared")
    if H != exp:
        mon.bad("haplotypes/strings", f"{call}: got {H} expected {exp} (sites {inside} of positions "
                f"{[s['pos'] for s in R.sites]})")


def expect_alignment_ref(R, ref_kind, ref_arg, lo, hi, eff):
    """(must, may, {variant_name: base string}) for the requested span."""
    m = R.m
    L = int(m.L)
    lo, hi = int(lo), int(hi)
    span = hi - lo
    must, may = set(), set()
    bases = {}
    if ref_arg is not None:
        full = (lo == 0 and hi == L)
        if len(ref_arg) == span:
            bases["span"] = ref_arg
            if not full:
                may.add("explicit-reference-span-length")  # E4
        if len(ref_arg) == L and not full:
            bases["full"] = ref_arg[lo:hi]
            may.add("explicit-reference-full-length")  # E4
        if not bases:
            must.add("reference-length")
    elif m.refseq is not None and any(m.refseq.get(k) for k in ("data", "url", "metadata", "metadata_schema")):
        # "a tree sequence is currently regarded as having an embedded reference sequence even if it only
        # has some metadata defined. In this case the reference_sequence parameter will need to be
        # explicitly set" (alignments docstring)
        data = m.refseq.get("data") or ""
        piece = data[lo:hi]
        if len(piece) != span:
            must.add("embedded-reference-too-short")
        else:
            bases["embedded"] = piece
    else:
        bases["fill"] = eff * span
    return must, may, bases


def alignment_strings(R, S, inside, lo, base):
    out = []
    for u in S:
        a = list(base)
        for j in inside:
            s = R.sites[j]
            a[int(s["pos"]) - int(lo)] = s["allele"][u]
        out.append("".join(a))
    return out


def alignment_expectation(rng, mon, with_samples=True, with_interval=True, default_mdc="N"):
    """Draw arguments for alignments()/write_fasta/write_nexus and predict the outcome."""
    R = mon.R
    m = R.m
    kw = {}
    must, may = set(), set()
    S = None
    if with_samples:
        kind, S = pick_samples(rng, m, prefer_samples=True)
        mon.ctx.feature(f"samples:{kind}")
        if S is not None:
            kw["samples"] = samples_form(rng, S, mon.ctx)
        must |= ctor_errors(R, S, True)  # alignments has no isolated_as_missing argument: default True
    nodes = list(R.samples) if S is None else list(S)
    mdc = rng.choice([None] * 8 + ["N", "N", "-", "-", "?", "*", "A", "n", "T", "NN", "é"])
    if mdc is not None:
        kw["missing_data_character"] = mdc
    eff = default_mdc if mdc is None else mdc
    if not R.discrete:
        must.add("non-discrete-genome")
        if with_interval and rng.random() < 0.5:
            kw["left"] = 0
        return kw, must, may, nodes, None, None, None
    L = int(m.L)
    lo, hi = 0, L
    if with_interval:
        ikw, lo, hi, istat = pick_interval(rng, R, integer=True)
        kw.update(ikw)
        if istat == "must":
            must.add("invalid-interval")
        elif istat == "may":
            may.add("degenerate-interval")
        if not (float(lo).is_integer() and float(hi).is_integer()):
            must.add("non-integer-interval")
    valid_iv = not (must & {"invalid-interval", "non-integer-interval"}) and lo < hi and "degenerate-interval" not in may
    ref_arg = None
    r = rng.random()
    span = int(hi - lo) if valid_iv else L
    if r < 0.45:
        pass
    elif r < 0.75:
        ref_arg = "".join(rng.choice(REF_ALPHABET) for _ in range(span))
    elif r < 0.87:
        ref_arg = "".join(rng.choice(REF_ALPHABET) for _ in range(L))
    else:
        ref_arg = "".join(rng.choice(REF_ALPHABET) for _ in range(max(0, rng.choice([span - 1, span + 1, L + 1, 0]))))
    if ref_arg is not None:
        kw["reference_sequence"] = ref_arg
    if len(eff) != 1 or not eff.isascii():
        # only used when it has to be encoded: as the fill or as the missing marker of haplotypes
        must.add("bad-missing-data-character")
    if R.isolated_any:
        must.add("isolated-samples-present")
    if not valid_iv:
        return kw, must, may, nodes, None, None, None
    m2, y2, bases = expect_alignment_ref(R, None, ref_arg, lo, hi,
                                         eff if len(eff) == 1 and eff.isascii() else default_mdc)
    must |= m2
    may |= y2
    inside = R.sites_in(lo, hi)
    outside = [j for j in range(len(R.sites)) if j not in inside]
    must |= allele_problems(R, inside, eff)
    may |= allele_problems(R, outside, eff)
    return kw, must, may, nodes, inside, lo, bases


def mon_alignments(rng, mon, ts):
    R, ctx = mon.R, mon.ctx
    kw, must, may, nodes, inside, lo, bases = alignment_expectation(rng, mon)
    call = Lazy("alignments", kw)
    ok, A = attempt(lambda: list(ts.alignments(**kw)))
    ctx.count("alignments:calls")
    if not mon.decide("alignments", ok, A, must, may, call):
        return
    if bases is None:
        return  # E5: degenerate interval accepted by the library; nothing is specified about the result
    cands = {name: alignment_strings(R, nodes, inside, lo, base) for name, base in bases.items()}
    ctx.count("alignments:compared")
    if not any(A == c for c in cands.values()):
        mon.bad("alignments/strings", f"{call}: got {A} expected one of {cands} (embedded reference "
                f"{R.m.refseq}, sites {[(s['pos'], s['anc']) for s in R.sites]})")


def text_output(fn, form, kw):
    """Run a write_xxx(file_or_path, **kw) method through one of the documented destinations and return the text
    ("The file object or path to write the output. Paths can be either strings or pathlib.Path objects")."""
    if form in ("as_fasta", "as_nexus"):
        return fn(**kw)
    if form == "StringIO":
        buf = io.StringIO()
        fn(buf, **kw)
        return buf.getvalue()
    with tempfile.TemporaryDirectory(prefix="c03-") as d:
        path = os.path.join(d, "out.txt")
        if form == "path-str":
            fn(path, **kw)
        elif form == "pathlib":
            fn(pathlib.Path(path), **kw)
        else:
            with open(path, "w") as f:
                f.write("HEAD\n")  # an open file is written from its current position and left open
                fn(f, **kw)
                f.write("TAIL\n")
            with open(path) as f:
                text = f.read()
            if not (text.startswith("HEAD\n") and text.endswith("TAIL\n")):
                raise AssertionError("the harness's own marker lines were lost")
            return text[5:-5]
        with open(path) as f:
            return f.read()


def mon_fasta(rng, mon, ts):
    R, ctx = mon.R, mon.ctx
    kw, must, may, nodes, inside, lo, bases = alignment_expectation(rng, mon, with_samples=False,
                                                                    with_interval=False)
    ww = rng.choice([None, None, 0, 1, 3, 4, 60, int(R.m.L), -1, 2.5])
    if ww is not None:
        kw["wrap_width"] = ww
    if ww is not None and (ww < 0 or int(ww) != ww):
        must.add("bad-wrap-width")
    if not nodes:
        # nothing to write for a tree sequence without samples: raising the errors of alignments() or
        # returning an empty file are both accepted
        may |= must
        must = set()
    form = rng.choice(["as_fasta", "as_fasta", "path-str", "pathlib", "open-file", "StringIO"])
    ctx.feature(f"fasta-output:{form}")
    call = Lazy(f"write_fasta[{form}]", kw)
    ok, text = attempt(lambda: text_output(ts.as_fasta if form == "as_fasta" else ts.write_fasta, form, kw))
    ctx.count("as_fasta:calls")
    if not mon.decide("as_fasta", ok, text, must, may, call):
        return
    width = 60 if ww is None else int(ww)
    if bases is None:
        return
    cands = [alignment_strings(R, nodes, inside, lo, base) for base in bases.values()] if nodes else [[]]
    lines = text.split("\n")
    recs = []
    okfmt = text == "" or text.endswith("\n")
    for ln in lines[:-1]:
        if ln.startswith(">"):
            recs.append([ln[1:], []])
        elif recs:
            recs[-1][1].append(ln)
        else:
            okfmt = False
    ctx.count("as_fasta:compared")
    labels = [r[0] for r in recs]
    seqs = ["".join(r[1]) for r in recs]
    if not okfmt or labels != [f"n{u}" for u in nodes] or not any(seqs == c for c in cands):
        mon.bad("as_fasta/content", f"{call}: labels {labels} sequences {seqs}; expected labels "
                f"{[f'n{u}' for u in nodes]} sequences {cands}")
        return
    for lab, chunks in recs:
        if width > 0:
            good = all(len(c) == width for c in chunks[:-1]) and (not chunks or 0 < len(chunks[-1]) <= width)
        else:
            good = len(chunks) == 1
        if not good:
            mon.bad("as_fasta/wrapping", f"{call}: record {lab} line lengths {[len(c) for c in chunks]} "
                    f"for wrap_width {width}")
            return


def mon_nexus(rng, mon, ts):
    """DATA block of write_nexus / as_nexus: "sequence alignment data will also be included by default" when the genome
    is discrete and there is a site; rows `n<u> <alignment>`; the missing character defaults to "?" here.
    include_trees=False throughout (the TREES block is C18's; multi-root trees raise there)."""
    R, ctx = mon.R, mon.ctx
    kw, must, may, nodes, inside, lo, bases = alignment_expectation(rng, mon, with_samples=False,
                                                                    with_interval=False, default_mdc="?")
    ia = rng.choice([None, None, True, True, False])
    kw["include_trees"] = False
    if ia is not None:
        kw["include_alignments"] = ia
    included = ia if ia is not None else (R.discrete and len(R.sites) > 0)
    if not included:
        must, may, bases = set(), set(), None
    if not nodes:
        may |= must  # as for write_fasta: nothing is ever drawn from alignments() without samples
        must = set()
    form = rng.choice(["as_nexus", "as_nexus", "path-str", "pathlib", "open-file", "StringIO"])
    ctx.feature(f"nexus-output:{form}")
    call = Lazy(f"write_nexus[{form}]", kw)
    ok, text = attempt(lambda: text_output(ts.as_nexus if form == "as_nexus" else ts.write_nexus, form, kw))
    ctx.count("nexus:calls")
    if not mon.decide("nexus", ok, text, must, may, call):
        return
    lines = [ln.strip() for ln in text.split("\n")]
    ctx.count("nexus:compared")
    exp_tax = " ".join(f"n{u}" for u in R.samples)
    if (not lines or lines[0] != "#NEXUS" or f"DIMENSIONS NTAX={len(R.samples)};" not in lines
            or f"TAXLABELS {exp_tax};" not in lines or "BEGIN TREES;" in lines):
        mon.bad("nexus/taxa-block", f"{call}: {text[:400]!r}; expected taxa {exp_tax!r} and no TREES block")
        return
    has_data = "BEGIN DATA;" in lines
    if has_data != bool(included):
        mon.bad("nexus/data-block-presence", f"{call}: DATA block present={has_data}, expected {bool(included)} "
                f"(discrete genome {R.discrete}, {len(R.sites)} sites)")
        return
    if not included or bases is None:
        return
    i0 = lines.index("BEGIN DATA;")
    i1 = lines.index("END;", i0)
    block = lines[i0 + 1:i1]
    eff = kw.get("missing_data_character", "?")
    if (len(block) < 4 or block[0] != f"DIMENSIONS NCHAR={int(R.m.L)};"
            or block[1] != f"FORMAT DATATYPE=DNA MISSING={eff};" or block[2] != "MATRIX" or block[-1] != ";"):
        mon.bad("nexus/data-header", f"{call}: DATA block {block[:3]} ... {block[-1:]}; expected NCHAR={int(R.m.L)} "
                f"MISSING={eff}")
        return
    rows = [tuple(ln.split(" ", 1)) for ln in block[3:-1]]
    cands = [alignment_strings(R, nodes, inside, lo, base) for base in bases.values()] if nodes else [[]]
    if not any(rows == [(f"n{u}", a) for u, a in zip(nodes, c)] for c in cands):
        mon.bad("nexus/matrix", f"{call}: matrix rows {rows}; expected labels {[f'n{u}' for u in nodes]} "
                f"sequences {cands}")


def mon_macs(rng, mon, ts):
    """to_macs renders variants(copy=False): `SITE:<tab>index<tab>position/L<tab>0.0<tab>genotype characters` (E7)."""
    R, ctx = mon.R, mon.ctx
    ok, text = attempt(lambda: ts.to_macs())
    ctx.count("to_macs:calls")
    if not ok:
        ctx.count("to_macs:either-zone-error")
        return
    lines = [ln for ln in text.split("\n") if ln.startswith("SITE:")]
    S = list(R.samples)
    exp = []
    for j, s in enumerate(R.sites):
        al, mi = R.expected(j, S, True)
        if any(mi) or any(len(a) != 1 or not a.isascii() for a in s["states"]):
            ctx.count("to_macs:either-zone-result")  # returned although an allele is not one character / is missing
            return
        exp.append((str(j), "".join(al)))
    got = [(ln.split("\t")[1], ln.split("\t")[-1]) for ln in lines]
    ctx.count("to_macs:compared")
    if got != exp:
        mon.bad("to_macs/genotypes", f"to_macs(): site lines {got}, expected {exp}")


def alternative_route(rng, ctx, ts):
    """The same tree sequence as a pickled copy / rebuilt from its tables / dumped and loaded (a share of the cases)."""
    r = rng.random()
    if r < 0.90:
        return ts
    if r < 0.935:
        ctx.feature("ts-route:pickle")
        return pickle.loads(pickle.dumps(ts))
    if r < 0.97:
        ctx.feature("ts-route:dump_tables")
        return ts.dump_tables().tree_sequence()
    ctx.feature("ts-route:dump-load")
    with tempfile.TemporaryDirectory(prefix="c03-") as d:
        path = os.path.join(d, "x.trees")
        ts.dump(path)
        return tskit.load(path)


def run_case(case, ctx):
    rng, m = build(case)
    big = case["gen"] == "big"
    R = GenoRef(m, fast=big, selfcheck=(not big and case["k"] % 8 == 0))
    mon = Mon(ctx, m, R)
    tags = (big_features(m) if big else gen.topo_tags(m)) | model_features(m, R)
    for t in tags:
        ctx.feature(t)
    ctx.feature("gen:" + case["gen"])
    ctx.feature("discrete-genome" if R.discrete else "continuous-genome")
    ctx.sig(m.signature(), nontrivial=len(m.sites) > 0 and len(m.mutations) > 0)
    if case["k"] < 2:
        ctx.sample({"case": case, "model": m.to_json()})
    ts = to_ts(m)
    if big:
        # one pass of each decoder; the two paths of tsk_variant_decode are both forced: sample lists (default
        # samples) and traversal (explicit nodes - here every node, so whole subtrees go over the stack)
        ctx.count("big:cases")
        mon.force = "default"
        mon_variants(rng, mon, ts)
        mon.force = "all-nodes"
        mon_variants(rng, mon, ts)
        mon.force = rng.choice(["default", "all-nodes", None])
        mon_decode(rng, mon, ts)
        mon.force = rng.choice(["default", "all-nodes"])
        mon_genotype_matrix(rng, mon, ts, None)
        mon.force = rng.choice(["default", None])
        mon_haplotypes(rng, mon, ts)
        mon.force = None
        return
    ts = alternative_route(rng, ctx, ts)
    for _ in range(2):
        mon_variants(rng, mon, ts)
    for _ in range(2):
        mon_decode(rng, mon, ts)
    mon_fresh(rng, mon, ts)
    mon_genotype_matrix(rng, mon, ts, None)
    mon_matrix_vs_variants(rng, mon, ts)
    for _ in range(2):
        mon_haplotypes(rng, mon, ts)
    if case["gen"] == "align" or rng.random() < 0.3:
        for _ in range(3 if case["gen"] == "align" else 1):
            mon_alignments(rng, mon, ts)
        mon_fasta(rng, mon, ts)
        mon_nexus(rng, mon, ts)
    if rng.random() < 0.25:
        mon_macs(rng, mon, ts)
