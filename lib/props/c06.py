"""C06 — a Tree's state depends only on where it is, not on how it got there.

History checker: the model state is the tree index in {-1, 0..T-1} with the transition function from
the docstrings; after every operation the real Tree's observable state is compared (a) with a fresh Tree
moved directly to that index and (b) with the reference forest computed from the edge rows (check_tree; in the
null state, the edge-free forest of lib.props.c06_ext.null_reference).
Workloads: exhaustive operation sequences (DFS over a core alphabet, sharing prefixes through Tree.copy(),
which is itself one of the operations; boundary values, out-of-range values and alternative argument forms are
probed at the DFS nodes without recursing below them), and long random walks without DFS copies that start from
every way of obtaining a Tree (constructor, TreeSequence.first/last/at/at_index/aslist, the trees() iterator and
its reverse - which then stays one of the operations of the walk).

Audit round (lib/props/AUDIT-C06.md): argument forms (keyword, numpy scalars, integer positions, negative
indexes, the low-level object), exact boundaries (-0.0, the smallest subnormal, L/2 and its neighbours, -T,
2^31 and 2^32 indexes, +-inf), inputs with hundreds of trees or hundreds of edges per breakpoint, parked copies
that must not move when their original does (and the reverse), two Trees with different options on one tree
sequence, the Tree.__eq__/__ne__ pair, and the observables left out of observable_state.
"""
import bisect
import math
import warnings

import numpy as np
import tskit

from lib import gen
from lib.harness import case_rng
from lib.model import NULL, RowModel
from lib.props import c06_ext as X
from lib.treecheck import check_tree, observable_state
from lib.tsk import to_ts

ID = "C06"

NAV_ERRORS = (IndexError, ValueError, OverflowError, tskit.LibraryError)


def special_models():
    out = []
    # chain of sample nodes 2 -> 1 -> 0 over two trees (internal samples + tracked samples: D13 class)
    m = RowModel(4.0)
    m.nodes = [(1, 0.0, NULL, NULL, b""), (1, 1.0, NULL, NULL, b""), (1, 2.0, NULL, NULL, b""), (1, 0.0, NULL, NULL, b"")]
    m.edges = [(0.0, 4.0, 1, 0, b""), (0.0, 2.0, 2, 1, b""), (2.0, 4.0, 2, 3, b"")]
    m.edges.sort(key=lambda e: (m.nodes[e[2]][1], e[2], e[3], e[0]))
    m.sites = [(1.0, "A", b""), (3.0, "C", b"")]
    m.mutations = [(0, 1, "T", NULL, None, b""), (1, 3, "G", NULL, None, b"")]
    out.append(m)
    # gaps at both ends, one tree in the middle, L/2 on a breakpoint
    m = RowModel(8.0)
    m.nodes = [(1, 0.0, NULL, NULL, b""), (1, 0.0, NULL, NULL, b""), (0, 1.0, NULL, NULL, b""), (1, 0.5, NULL, NULL, b"")]
    m.edges = [(2.0, 4.0, 2, 0, b""), (2.0, 6.0, 2, 1, b""), (4.0, 6.0, 2, 3, b"")]
    m.edges.sort(key=lambda e: (m.nodes[e[2]][1], e[2], e[3], e[0]))
    m.sites = [(0.0, "A", b""), (4.0, "A", b""), (7.0, "A", b"")]
    m.mutations = [(1, 2, "T", NULL, None, b"")]
    out.append(m)
    # single tree, edges spanning everything
    m = RowModel(1.0)
    m.nodes = [(1, 0.0, NULL, NULL, b""), (1, 0.0, NULL, NULL, b""), (0, 1.0, NULL, NULL, b"")]
    m.edges = [(0.0, 1.0, 2, 0, b""), (0.0, 1.0, 2, 1, b"")]
    out.append(m)
    # five trees, many edges sharing end-points, internal sample that is tracked
    m = RowModel(10.0)
    m.nodes = [(1, 0.0, NULL, NULL, b""), (1, 0.0, NULL, NULL, b""), (1, 1.0, NULL, NULL, b""), (0, 2.0, NULL, NULL, b""), (1, 0.0, NULL, NULL, b"")]
    ed = []
    for k in range(5):
        l, r = 2.0 * k, 2.0 * k + 2
        ed.append((l, r, 2 if k % 2 == 0 else 3, 0, b""))
        ed.append((l, r, 3 if k % 2 == 0 else 2, 1, b""))
    ed.append((0.0, 10.0, 3, 2, b""))
    ed.append((4.0, 10.0, 2, 4, b""))
    m.edges = sorted(ed, key=lambda e: (m.nodes[e[2]][1], e[2], e[3], e[0]))
    out.append(m)
    # a leading edge-free gap that reaches past L/2 (what keep_intervals leaves when only the right-hand end is kept): a
    # seek from the null state into the gap takes the right-to-left route and finds no edge starting before the target
    m = RowModel(10.0)
    m.nodes = [(1, 0.0, NULL, NULL, b""), (1, 0.0, NULL, NULL, b""), (1, 0.0, NULL, NULL, b""), (0, 1.0, NULL, NULL, b""),
               (0, 2.0, NULL, NULL, b"")]
    m.edges = [(6.0, 8.0, 3, 0, b""), (6.0, 10.0, 3, 1, b""), (8.0, 10.0, 4, 0, b""), (6.0, 10.0, 4, 2, b""), (6.0, 10.0, 4, 3, b"")]
    m.edges.sort(key=lambda e: (m.nodes[e[2]][1], e[2], e[3], e[0]))
    m.sites = [(5.5, "A", b""), (7.0, "A", b"")]
    m.mutations = [(1, 3, "T", NULL, None, b"")]
    out.append(m)
    # whole tables empty: no nodes at all; samples without any edge (one edge-free tree each)
    out.extend(X.empty_models())
    return out


def cases(tier, seed):
    nspec = len(special_models())
    spec = [{"gen": "special-dfs", "k": k, "opt": o, "depth": 3 if tier == "quick" else 4}
            for k in range(nspec) for o in range(4)]
    ndfs = 400 if tier == "quick" else 20000
    nwalk = 6000 if tier == "quick" else 600000
    # interleaved so that every kind runs even when the time budget cuts the list short
    di = wi = 0
    for e in spec:
        yield e
        for _ in range(4):
            yield {"gen": "walk", "k": wi}
            wi += 1
    while di < ndfs or wi < nwalk:
        if di < ndfs:
            yield {"gen": "dfs", "k": di, "depth": 2 if tier == "quick" else 3}
            di += 1
        for _ in range(15):
            if wi < nwalk:
                yield {"gen": "walk", "k": wi}
                wi += 1


def pick_opts(rng, m, variant=None):
    samples = m.samples()
    fixed = variant is not None
    if variant is None:
        variant = rng.randrange(4)
    sample_lists = variant % 2 == 1
    if variant < 2:
        thr = 1
    elif fixed:
        thr = rng.choice([2, 3])
    else:
        # exact boundaries: a threshold equal to (or one above) the sample count below some root; equal to the
        # number of samples; one more than that (no node can ever be a root)
        r = rng.random()
        if r < 0.5:
            thr = rng.choice([2, 3])
        elif r < 0.8:
            thr = X.boundary_threshold(rng, m)
        elif r < 0.9:
            thr = max(1, len(samples))
        else:
            thr = len(samples) + 1
    if not samples:
        tracked = None if (fixed or rng.random() < 0.5) else []
    else:
        r = rng.random()
        if r < 0.3:
            tracked = list(samples)
        elif r < 0.9:
            tracked = rng.sample(samples, rng.randint(1, len(samples)))
        elif fixed or r >= 0.95:
            tracked = None
        else:
            tracked = []  # an empty list is not the same argument as None
    return {"sample_lists": sample_lists, "root_threshold": thr, "tracked": tracked}


def make_tree(ts, opts):
    kw = {"sample_lists": opts["sample_lists"], "root_threshold": opts["root_threshold"]}
    if opts["tracked"] is not None:
        kw["tracked_samples"] = opts["tracked"]
    return tskit.Tree(ts, **kw)


def tree_bucket(T):
    return str(T) if T <= 6 else "7-127" if T < 128 else "128-255" if T < 256 else "256+"


class Harness:
    """One tree sequence + option set: model transitions, fresh-state cache, comparison."""

    def __init__(self, ctx, m, ts, opts, rng):
        self.ctx, self.m, self.ts, self.opts, self.rng = ctx, m, ts, opts, rng
        self.T = ts.num_trees
        self.n = ts.num_nodes
        self.bps = m.breakpoints()
        self.fresh = {}
        self.failed = False
        self.ncmp = 0
        self.big = self.n > 64 or self.T > 64
        self.core, self.extras = self._alphabet()
        self.alphabet = self.core

    def _alphabet(self):
        T, L = self.T, self.m.L
        ops = [("first",), ("last",), ("next",), ("prev",), ("clear",), ("copy",)]
        for i in range(T):
            ops.append(("seek_index", i))
            l, r = self.bps[i], self.bps[i + 1]
            for x in (l, (l + r) / 2, math.nextafter(r, 0)):
                ops.append(("seek", x))
        ops.append(("seek_index", -1))
        ops.append(("seek_index", T))
        ops.append(("seek", L))
        # Probed at every DFS node / drawn in walks, never recursed below in the DFS (they either fail and leave the
        # state alone, or are another spelling of a core operation).
        ex = [("seek_index", -T), ("seek_index", -T - 1), ("seek_index", 2 ** 31 - 1), ("seek_index", 2 ** 31),
              ("seek_index", -2 ** 31), ("seek_index", 2 ** 32), ("seek_index", 2 ** 32 + T - 1), ("seek_index", 2 ** 64)]
        for x in (-1.0, float("nan"), math.inf, -math.inf, -5e-324, math.nextafter(L, math.inf),
                  -0.0, 5e-324, L / 2, math.nextafter(L / 2, math.inf), math.nextafter(L / 2, 0)):
            ex.append(("seek", x))
        idx = list(range(T)) if T <= 6 else sorted({0, T - 1, T // 2, 127 % T, 128 % T, 255 % T, 256 % T})
        for k, i in enumerate(idx):
            f = X.index_forms(i, T)
            ex.append(("seek_index", i, f[k % len(f)]))
            l, r = self.bps[i], self.bps[i + 1]
            x = (l, (l + r) / 2, math.nextafter(r, 0))[k % 3]
            f = X.seek_forms(x)
            ex.append(("seek", x, f[(k // 3) % len(f)]))
        ex += [("seek", L, "ll"), ("seek", float("nan"), "ll"), ("seek", -1.0, "ll"), ("seek", -5e-324, "ll"),
               ("seek_index", T, "ll"), ("seek_index", -1, "ll"), ("seek_index", 2 ** 31, "ll"),
               ("seek_index", T, "np64"), ("seek_index", -T - 1, "np32"), ("seek", L, "np64"), ("seek", L, "kw"),
               ("seek_index", T, "kw"), ("seek", -0.0, "ll"), ("seek", L / 2, "ll")]
        if L == int(L):
            ex += [("seek", L, "int"), ("seek", 0.0, "int"), ("seek", L - 1, "npint")]
        return ops, ex

    def fresh_entry(self, i):
        if i not in self.fresh:
            t = make_tree(self.ts, self.opts)
            if i >= 0:
                t.seek_index(i)
            self.fresh[i] = (t, observable_state(t, self.n), X.extra_state(t, self.n))
        return self.fresh[i]

    def index_of(self, x):
        return bisect.bisect_right(self.bps, x) - 1

    def expect(self, state, op):
        """(new index, expected return, expected exception class or None)"""
        T = self.T
        name = op[0]
        form = op[2] if len(op) > 2 else "py"
        if name == "first":
            return 0, None, None
        if name == "last":
            return T - 1, None, None
        if name == "next":
            if state == -1:
                return 0, True, None
            if state == T - 1:
                return -1, False, None
            return state + 1, True, None
        if name == "prev":
            if state == -1:
                return T - 1, True, None
            if state == 0:
                return -1, False, None
            return state - 1, True, None
        if name == "clear":
            return -1, None, None
        if name == "copy":
            return state, None, None
        if name == "seek_index":
            i = op[1]
            if form == "neg":
                i -= T
            if form == "ll":
                # the low-level object has no negative-index convention
                return (i, None, None) if 0 <= i < T else (state, None, "ll-error")
            if -T <= i < T:
                return i % T, None, None
            return state, None, IndexError
        if name == "seek":
            x = op[1]
            if form == "np32":
                x = float(np.float32(x))
            elif form in ("int", "npint"):
                x = float(int(x))
            if not (0 <= x < self.m.L):
                return state, None, ("ll-error" if form == "ll" else ValueError)
            return self.index_of(x), None, None
        raise AssertionError(op)

    def tags(self, state, move, op, new):
        ctx = self.ctx
        name = op[0]
        ctx.feature("op:" + name)
        ctx.feature(f"trans:{move}>{name}")
        form = op[2] if len(op) > 2 else "py"
        if form != "py":
            ctx.feature(f"form:{name}:{form}")
            ctx.count("form-ops")
        if name == "seek":
            x, L = op[1], self.m.L
            b = None
            if x != x:
                b = "nan"
            elif x == 0 and math.copysign(1, x) < 0:
                b = "-0.0"
            elif x in (5e-324, -5e-324):
                b = "subnormal"
            elif math.isinf(x):
                b = "inf"
            elif x == L / 2:
                b = "L/2"
            elif x in (math.nextafter(L / 2, math.inf), math.nextafter(L / 2, 0)):
                b = "L/2-neighbour"
            elif x in (L, math.nextafter(L, math.inf), math.nextafter(L, 0)):
                b = "L-or-neighbour"
            elif x in self.bps:
                b = "breakpoint"
            if b:
                ctx.feature("seek-at:" + b)
                ctx.count("boundary-ops")
            if 0 <= x < L and form not in ("np32", "int", "npint"):
                if state == -1:
                    ctx.count("seeks-from-null")
                    ctx.feature("seek-from-null:" + ("left-half" if x <= L / 2 else "right-half"))
                elif new == state:
                    ctx.feature("seek:same-tree")
                else:
                    ctx.feature("seek:linear-" + ("up" if new > state else "down")
                                + (":far" if abs(new - state) > self.T / 2 else ""))
        elif name == "seek_index":
            i = op[1]
            if abs(i) >= 2 ** 31 - 1 or i in (-self.T, -self.T - 1, self.T, -1):
                ctx.feature("seek_index-at:" + ("-T" if i == -self.T else "-T-1" if i == -self.T - 1 else "T" if i == self.T
                                                else "-1" if i == -1 else "2^31-and-beyond"))
                ctx.count("boundary-ops")
            if state == -1 and form in ("py", "kw", "np32", "np64", "neg") and -self.T <= i < self.T:
                ctx.count("seeks-from-null")

    def apply(self, tree, state, move, op, history):
        """Apply op to the real tree, compare with the model. Returns (tree, new_state, new_move)."""
        ctx = self.ctx
        new, exp_ret, exp_exc = self.expect(state, op)
        ctx.count("steps")
        self.tags(state, move, op, new)
        try:
            if op[0] == "copy":
                tree = tree.copy()
                ret = None
            elif op[0] in ("seek", "seek_index"):
                ret = X.call_nav(tree, op)
            else:
                ret = getattr(tree, op[0])()
            raised = None
        except NAV_ERRORS as e:
            raised = e
            ret = None
        hist = history + [op]
        if exp_exc is not None:
            ctx.count("error-transitions")
            if raised is None:
                self.fail("nav/out-of-range-accepted/" + op[0], f"{op} from index {state} should raise "
                          f"{exp_exc if isinstance(exp_exc, str) else exp_exc.__name__}; history {hist}")
            elif not isinstance(exp_exc, str) and not isinstance(raised, exp_exc):
                # the public methods document their exception: Tree.seek ":raises ValueError:", Tree.seek_index
                # ":raises IndexError:" (the low-level object documents none: any failure is accepted there)
                self.fail("nav/wrong-error-class/" + op[0], f"{op} from index {state} raised {raised!r}, documented: "
                          f"{exp_exc.__name__}; history {hist}")
            if exp_exc == "ll-error":
                # The low-level object: the call must fail.  That it leaves the tree where it was is what the C
                # code does but is not documented: the state is compared at whatever index the tree reports.
                ctx.count("ll-error-transitions")
                got = tree.index
                if not (-1 <= got < self.T):
                    self.fail("nav/ll-error/index", f"index {got} after failed {op}; history {hist}")
                    return tree, state, move
                new = got
            # a failed call is followed by the comparison with the fresh tree only (the reference forest of this
            # index was compared when the tree arrived here)
            self.compare(tree, new, hist, light=True)
            return tree, new, (move if new == state else "seek")
        if raised is not None:
            self.fail("nav/unexpected-error/" + op[0], f"{op} from index {state} raised {raised!r}; history {hist}")
            return tree, state, move
        if op[0] in ("next", "prev") and bool(ret) != exp_ret:
            self.fail("nav/return-value/" + op[0], f"{op[0]}() from index {state} returned {ret!r}, expected {exp_ret}; history {hist}")
        if op[0] == "seek":
            # "After a successful return of this method we have tree.interval.left <= position < tree.interval.right"
            x = float(np.float32(op[1])) if (len(op) > 2 and op[2] == "np32") else float(op[1])
            iv = tree.interval
            ctx.count("seek-contains")
            if not (iv.left <= x < iv.right):
                self.fail("nav/seek-interval", f"after {op} from index {state} the interval is {tuple(iv)}; history {hist}")
        self.compare(tree, new, hist)
        if op[0] in ("first", "next"):
            move = "fwd"
        elif op[0] in ("last", "prev"):
            move = "rev"
        elif op[0] in ("seek", "seek_index"):
            move = "seek"
        if new == -1:
            move = "null"
        return tree, new, move

    def apply_iter(self, it, alive, direction, tree, state, move, history):
        """next(iterator) on the TreeIterator that owns `tree`. Returns (new_state, new_move, alive)."""
        ctx = self.ctx
        ctx.count("steps")
        ctx.count("iterator-steps")
        ctx.feature("op:iter-" + direction)
        ctx.feature(f"trans:{move}>iter-{direction}")
        hist = history + [("iter", direction)]
        try:
            got = next(it)
            stopped = False
        except StopIteration:
            got = None
            stopped = True
        if not alive:
            # Iterator protocol: once StopIteration was raised, it is raised on every later call.  Whether the tree
            # is moved by such a call is not documented: the state is compared at the index the tree reports.
            ctx.count("iterator-exhausted-calls")
            if not stopped:
                self.fail("nav/iterator/resumed", f"next() on an exhausted trees() iterator returned a tree; history {hist}")
            new = tree.index
            if not (-1 <= new < self.T):
                self.fail("nav/iterator/index", f"index {new} after next() on an exhausted iterator; history {hist}")
                return state, move, alive
            self.compare(tree, new, hist, light=(new == state))
            return new, (move if new == state else "seek"), alive
        new, exp_ret, _ = self.expect(state, ("next",) if direction == "fwd" else ("prev",))
        if exp_ret:
            if stopped:
                self.fail("nav/iterator/early-stop", f"trees() iterator ({direction}) stopped at index {state} of "
                          f"{self.T} trees; history {hist}")
            elif got is not tree:
                self.fail("nav/iterator/other-object", f"trees() iterator returned another object; history {hist}")
        else:
            alive = False
            if not stopped:
                self.fail("nav/iterator/no-stop", f"trees() iterator ({direction}) returned a tree after index {state}, "
                          f"the {'last' if direction == 'fwd' else 'first'} of {self.T}; history {hist}")
        self.compare(tree, new, hist)
        return new, ("null" if new == -1 else "fwd" if direction == "fwd" else "rev"), alive

    def compare(self, tree, idx, hist, light=False, force_deep=False):
        ctx = self.ctx
        ctx.count("state-comparisons")
        self.ncmp += 1
        if tree.index != idx:
            self.fail("nav/wrong-tree", f"tree.index={tree.index} expected {idx} after {hist} (opts {self.opts})")
            return
        got = observable_state(tree, self.n)
        ftree, exp, expx = self.fresh_entry(idx)
        # total_branch_length is a floating-point sum taken in child order, which is allowed to depend on the path
        if got != exp and abs(got["tbl"] - exp["tbl"]) <= 1e-9 * max(1.0, abs(exp["tbl"])):
            got = dict(got, tbl=exp["tbl"])
        if got != exp:
            diff = [k for k in exp if got[k] != exp[k]]
            self.fail("nav/state-differs/" + "+".join(diff),
                      f"after {hist} (opts {self.opts}) state differs from a fresh tree at index {idx} in {diff}: "
                      f"got { {k: got[k] for k in diff} } expected { {k: exp[k] for k in diff} }")
        gotx = X.extra_state(tree, self.n)
        if gotx != expx:
            diff = [k for k in expx if gotx[k] != expx[k]]
            self.fail("nav/state-differs/" + "+".join(diff),
                      f"after {hist} (opts {self.opts}) state differs from a fresh tree at index {idx} in {diff}: "
                      f"got { {k: gotx[k] for k in diff} } expected { {k: expx[k] for k in diff} }")
        # identical observable state: the two objects must compare equal (and not unequal)
        ctx.count("eq-checks")
        if not (tree == ftree) or (tree != ftree) or not (ftree == tree):
            self.fail("nav/eq", f"after {hist} the tree at index {idx} does not compare equal to a fresh tree at that "
                      f"index: == {tree == ftree}, != {tree != ftree}")
        if light:
            return
        if idx >= 0:
            ctx.count("reference-checks")
            deep = force_deep or self.ncmp % 89 == 0
            if deep:
                ctx.count("deep-reference-checks")
            bad = check_tree(tree, self.m, self.opts, deep=deep, rng=self.rng if deep else None, wide=deep or self.big)
            for key, msg in bad[:3]:
                self.fail("nav/tree/" + key, f"after {hist} (opts {self.opts}): {msg}")
        else:
            ctx.count("null-reference-checks")
            for key, msg in X.null_reference(tree, self.m, self.opts)[:3]:
                self.fail("nav/null/" + key, f"after {hist} (opts {self.opts}): {msg}")

    def fail(self, key, msg):
        self.failed = True
        self.ctx.violation(key, msg, {"model": self.m.to_json() if self.n <= 64 and self.T <= 64 else "(large)"})

    def dfs(self, depth):
        tree = make_tree(self.ts, self.opts)
        self.compare(tree, -1, [])
        visited = set()

        def rec(tree, state, move, hist, d):
            if d == 0 or self.failed:
                return
            # boundary / out-of-range / argument-form probes: all of them from the null start, a deterministic draw deeper
            probes = self.extras if not hist else self.rng.sample(self.extras, min(4, len(self.extras)))
            for op in probes:
                self.apply(tree.copy(), state, move, op, hist)
                if self.failed:
                    return
            for op in self.core:
                t2 = tree.copy()
                t2, s2, m2 = self.apply(t2, state, move, op, hist)
                visited.add((state, op[0], s2))
                if self.failed:
                    return
                rec(t2, s2, m2, hist + [op], d - 1)
            # the copies moved; the tree they were taken from must not have
            self.ctx.count("copy-independence")
            self.compare(tree, state, hist + ["(original after its copies moved)"], light=True)

        rec(tree, -1, "null", [], depth)
        self.ctx.count("distinct-transitions", len(visited))


START_FORMS = ("ctor", "ts.first", "ts.last", "ts.at", "ts.at_index", "aslist", "iter", "reversed")


class Walker:
    """One random walk: a current tree, optionally the iterator that owns it, and a parked second Tree object
    (a copy, the original of a copy, or another element of aslist()) that must stay where it was left."""

    def __init__(self, h, form):
        self.h = h
        rng, ctx = h.rng, h.ctx
        self.it = None
        self.alive = False
        self.direction = None
        self.parked = None
        ctx.feature("start:" + form)
        ctx.count("start-forms")
        opts = h.opts
        aliases = form in ("iter", "reversed", "aslist") and rng.random() < 0.4
        if aliases:
            ctx.feature("start:deprecated-keyword-aliases")
        kw = X.kwargs_for(rng, opts, ctx, aliases=aliases)
        self.hist = [form]
        with warnings.catch_warnings():
            warnings.simplefilter("ignore")  # the ignored sample_counts / leaf_counts argument warns
            tree, state, move = self.obtain(form, kw)
        self.tree, self.state, self.move = tree, state, move
        h.compare(tree, state, self.hist)

    def obtain(self, form, kw):
        h = self.h
        rng, ts, T, ctx = h.rng, h.ts, h.T, h.ctx
        if form == "ctor":
            if "tracked_samples" in kw and rng.random() < 0.5:
                tree = tskit.Tree(ts, kw.pop("tracked_samples"), **kw)  # positional
                ctx.feature("start:ctor-positional-tracked")
            else:
                tree = tskit.Tree(ts, **kw)
            state, move = -1, "null"
        elif form == "ts.first":
            tree, state, move = ts.first(**kw), 0, "fwd"
        elif form == "ts.last":
            tree, state, move = ts.last(**kw), T - 1, "rev"
        elif form == "ts.at":
            self.must_raise(lambda: ts.at(rng.choice([h.m.L, -1.0, float("nan"), math.inf]), **kw), ValueError, "ts.at")
            i = rng.randrange(T)
            l, r = h.bps[i], h.bps[i + 1]
            x = rng.choice([l, (l + r) / 2, math.nextafter(r, 0)])
            self.hist = [f"ts.at({x!r})"]
            tree, state, move = ts.at(x, **kw), i, "seek"
        elif form == "ts.at_index":
            self.must_raise(lambda: ts.at_index(rng.choice([T, -T - 1, 2 ** 31, 2 ** 32]), **kw), IndexError, "ts.at_index")
            i = rng.randrange(-T, T)
            self.hist = [f"ts.at_index({i})"]
            tree, state, move = ts.at_index(i, **kw), i % T, "seek"
        elif form == "aslist":
            lst = ts.aslist(**kw)
            if len(lst) != T:
                h.fail("nav/aslist/length", f"aslist() has {len(lst)} trees, the tree sequence {T}")
            i = rng.randrange(T)
            self.hist = [f"ts.aslist()[{i}]"]
            tree, state, move = lst[i], i, "fwd"
            if T > 1:
                j = rng.choice([k for k in range(T) if k != i])
                self.parked = (lst[j], j, "fwd")
        else:
            it = ts.trees(**kw)
            if len(it) != T:
                h.fail("nav/iterator/len", f"len(ts.trees())={len(it)} with {T} trees")
            if form == "reversed":
                it = reversed(it)
            self.it, self.alive = it, True
            self.direction = "fwd" if form == "iter" else "rev"
            tree = next(it)
            state = 0 if form == "iter" else T - 1
            move = self.direction
        return tree, state, move

    def must_raise(self, fn, exc, what):
        """TreeSequence.at / at_index "see also Tree.seek / Tree.seek_index": the same documented exceptions."""
        self.h.ctx.count("error-transitions")
        try:
            t = fn()
        except NAV_ERRORS as e:
            if not isinstance(e, exc):
                self.h.fail("nav/wrong-error-class/" + what, f"{what} with an out-of-range argument raised {e!r}, "
                            f"documented: {exc.__name__}")
            return
        self.h.fail("nav/out-of-range-accepted/" + what, f"{what} with an out-of-range argument returned a tree at index "
                    f"{t.index}, should raise {exc.__name__}")

    def check_parked(self, why):
        if self.parked is not None:
            t, s, _ = self.parked
            self.h.ctx.count("copy-independence")
            self.h.compare(t, s, self.hist[-12:] + [f"(parked tree, {why})"], light=True)

    def draw(self):
        h, rng = self.h, self.h.rng
        r = rng.random()
        if self.it is not None and r < (0.35 if self.alive else 0.04):
            return [("iter",)]
        r = rng.random()
        if r < 0.38:
            return [rng.choice([("next",), ("prev",), ("next",), ("prev",), ("first",), ("last",), ("clear",)])]
        if r < 0.52:
            return [rng.choice(h.extras)]
        if r < 0.60:
            # seek from the null state, into either half of the sequence
            i = rng.randrange(h.T)
            l, rr = h.bps[i], h.bps[i + 1]
            op = rng.choice([("seek_index", i), ("seek", l), ("seek", (l + rr) / 2), ("seek", math.nextafter(rr, 0))])
            return [("clear",), self.reform(op)]
        return [self.reform(rng.choice(h.core))]

    def reform(self, op):
        rng = self.h.rng
        if op[0] == "seek" and len(op) == 2 and rng.random() < 0.3:
            return (op[0], op[1], rng.choice(X.seek_forms(op[1])))
        if op[0] == "seek_index" and len(op) == 2 and rng.random() < 0.3:
            return (op[0], op[1], rng.choice(X.index_forms(op[1], self.h.T)))
        return op

    def step(self):
        h, rng = self.h, self.h.rng
        for op in self.draw():
            if h.failed:
                return
            hist = self.hist[-12:]
            if op == ("iter",):
                self.state, self.move, self.alive = h.apply_iter(self.it, self.alive, self.direction, self.tree,
                                                                 self.state, self.move, hist)
                self.hist.append(("iter", self.direction))
                continue
            t2, s2, m2 = h.apply(self.tree, self.state, self.move, op, hist)
            self.hist.append(op)
            if op[0] != "copy" or h.failed:
                self.tree, self.state, self.move = t2, s2, m2
                continue
            # A copy was made (and compared).  Earlier parked tree: still where it was left?
            self.check_parked("before re-parking")
            cur = (self.tree, self.state, self.move)
            cp = (t2, s2, m2)
            if self.it is not None:
                self.parked = cp  # the iterator owns the original: keep walking it
                continue
            pool = [cur, cp] + ([self.parked] if self.parked is not None else [])
            k = rng.randrange(len(pool))
            self.tree, self.state, self.move = pool.pop(k)
            self.parked = rng.choice(pool)
            h.ctx.feature("walk:continues-on-" + ("original" if k == 0 else "copy" if k == 1 else "parked"))

    def finish(self):
        if self.h.failed:
            return
        self.check_parked("end of walk")
        if self.state >= 0 and not self.h.failed and self.h.rng.random() < 0.3:
            # every view of the tree the walk ended on (pair queries, traversals, aliases, scalar accessors)
            self.h.compare(self.tree, self.state, self.hist[-12:] + ["(end of walk, deep)"], force_deep=True)


def gen_multi(rng, share=0.85, **kw):
    """gen_full, redrawn (a bounded number of times) while it has a single tree, for `share` of the cases:
    navigation over one tree has two states."""
    m = gen.gen_full(rng, **kw)
    if rng.random() < share:
        for _ in range(8):
            if len(m.breakpoints()) > 2:
                break
            m = gen.gen_full(rng, **kw)
    return m


def run_case(case, ctx):
    rng = case_rng(case)
    kind = case["gen"]
    k = case.get("k", 9)
    steps = None
    if kind == "special-dfs":
        m = special_models()[k]
        opts = pick_opts(rng, m, case["opt"])
        if k == 0:
            opts["tracked"] = [0] if case["opt"] % 2 == 0 else [0, 2]
    elif kind == "dfs":
        m = gen_multi(rng, max_nodes=6, max_bp=2, max_sites=3)
        opts = pick_opts(rng, m)
    else:
        if k % 25 == 24:
            from lib.props.c01 import build_msprime
            m = build_msprime(rng)  # many trees, arbitrary doubles, ARG nodes
        elif k % 25 in (12, 18):
            # hundreds of trees (index / edge-cursor arithmetic beyond 127 and 255)
            m = X.long_model(rng, rng.choice([40, 130, 140, 260, 300]))
            steps = rng.randint(25, 50)
        elif k % 99 == 7:
            m = X.wide_model(rng)  # hundreds of edges change at every breakpoint
            steps = rng.randint(10, 20)
        else:
            m = gen_multi(rng, max_nodes=10, max_bp=6, max_sites=5)
        opts = pick_opts(rng, m)
    ts = to_ts(m)
    if len(m.nodes) <= 64:
        for t in gen.topo_tags(m):
            ctx.feature(t)
    else:
        for t in m.tags:
            ctx.feature(t)
    ctx.feature(f"trees:{tree_bucket(ts.num_trees)}")
    if ts.num_edges > 255:
        ctx.feature("edges:256+")
    ctx.feature(f"opts:thr={'1' if opts['root_threshold'] == 1 else '#samples' if opts['root_threshold'] == len(m.samples()) else '#samples+1' if opts['root_threshold'] == len(m.samples()) + 1 else 'other'}")
    ctx.feature("opts:tracked=" + ("none" if opts["tracked"] is None else "empty" if not opts["tracked"] else "some"))
    start = START_FORMS[k % len(START_FORMS)] if kind == "walk" else "dfs"
    ctx.sig((kind, start, m.signature(), str(opts)), nontrivial=True)
    if k < 1:
        ctx.sample({"case": case, "opts": opts, "model": m.to_json()})
    h = Harness(ctx, m, ts, opts, rng)
    if kind in ("special-dfs", "dfs"):
        depth = case["depth"]
        if len(h.core) > 27:  # (was: > 30 of an alphabet that held three more failing calls)
            depth = min(depth, 3)
        h.dfs(depth)
        ctx.count("dfs-runs")
        return
    walkers = [Walker(h, start)]
    if k % 10 == 3 and not h.big:
        # a second Tree with another option set on the same tree sequence, moved in between
        opts2 = pick_opts(rng, m)
        opts2["sample_lists"] = not opts["sample_lists"]
        h2 = Harness(ctx, m, ts, opts2, rng)
        walkers.append(Walker(h2, START_FORMS[(k // 10) % len(START_FORMS)]))
        ctx.count("twin-walks")
    if steps is None:
        steps = rng.randint(20, 80)
    for _ in range(steps):
        w = walkers[0] if len(walkers) == 1 else rng.choice(walkers)
        w.step()
        if w.h.failed:
            return
    for w in walkers:
        w.finish()
    ctx.count("walks")

