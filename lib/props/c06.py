"""C06 — a Tree's state depends only on where it is, not on how it got there.

History checker: the model state is the tree index in {-1, 0..T-1} with the transition function from
the docstrings; after every operation the real Tree's observable state is compared (a) with a fresh Tree
moved directly to that index and (b) with the reference forest computed from the edge rows (check_tree).
Workloads: exhaustive operation sequences (DFS over an alphabet, sharing prefixes through Tree.copy(),
which is itself one of the operations), and long random walks without copies.
"""
import math

import numpy as np
import tskit

from lib import gen
from lib.harness import case_rng
from lib.model import NODE_IS_SAMPLE, NULL, RowModel
from lib.treecheck import check_tree, observable_state
from lib.tsk import to_ts

ID = "C06"


def special_models():
    out = []
    # chain of sample nodes 2 -> 1 -> 0 over two trees (internal samples + tracked samples: D13 class)
    m = RowModel(4.0)
    m.nodes = [(1, 0.0, NULL, NULL, b""), (1, 1.0, NULL, NULL, b""), (1, 2.0, NULL, NULL, b""), (1, 0.0, NULL, NULL, b"")]
    m.edges = [(0.0, 4.0, 1, 0, b""), (0.0, 2.0, 2, 1, b""), (2.0, 4.0, 2, 3, b"")]
    m.edges.sort(key=lambda e: (m.nodes[e[2]][1], e[2], e[3], e[0]))
    m.sites = [(1.0, "A", b""), (3.0, "C", b"")]
    m.mutations = [(0, 1, "T", NULL, None, b""), (1, 3, "G", NULL, None, b"")]
    out.append(m)
    # gaps at both ends, one tree in the middle, L/2 on a breakpoint
    m = RowModel(8.0)
    m.nodes = [(1, 0.0, NULL, NULL, b""), (1, 0.0, NULL, NULL, b""), (0, 1.0, NULL, NULL, b""), (1, 0.5, NULL, NULL, b"")]
    m.edges = [(2.0, 4.0, 2, 0, b""), (2.0, 6.0, 2, 1, b""), (4.0, 6.0, 2, 3, b"")]
    m.edges.sort(key=lambda e: (m.nodes[e[2]][1], e[2], e[3], e[0]))
    m.sites = [(0.0, "A", b""), (4.0, "A", b""), (7.0, "A", b"")]
    m.mutations = [(1, 2, "T", NULL, None, b"")]
    out.append(m)
    # single tree, edges spanning everything
    m = RowModel(1.0)
    m.nodes = [(1, 0.0, NULL, NULL, b""), (1, 0.0, NULL, NULL, b""), (0, 1.0, NULL, NULL, b"")]
    m.edges = [(0.0, 1.0, 2, 0, b""), (0.0, 1.0, 2, 1, b"")]
    out.append(m)
    # five trees, many edges sharing end-points, internal sample that is tracked
    m = RowModel(10.0)
    m.nodes = [(1, 0.0, NULL, NULL, b""), (1, 0.0, NULL, NULL, b""), (1, 1.0, NULL, NULL, b""), (0, 2.0, NULL, NULL, b""), (1, 0.0, NULL, NULL, b"")]
    ed = []
    for k in range(5):
        l, r = 2.0 * k, 2.0 * k + 2
        ed.append((l, r, 2 if k % 2 == 0 else 3, 0, b""))
        ed.append((l, r, 3 if k % 2 == 0 else 2, 1, b""))
    ed.append((0.0, 10.0, 3, 2, b""))
    ed.append((4.0, 10.0, 2, 4, b""))
    m.edges = sorted(ed, key=lambda e: (m.nodes[e[2]][1], e[2], e[3], e[0]))
    out.append(m)
    return out


def cases(tier, seed):
    nspec = len(special_models())
    spec = [{"gen": "special-dfs", "k": k, "opt": o, "depth": 3 if tier == "quick" else 4}
            for k in range(nspec) for o in range(4)]
    ndfs = 400 if tier == "quick" else 20000
    nwalk = 6000 if tier == "quick" else 600000
    # interleaved so that every kind runs even when the time budget cuts the list short
    di = wi = 0
    for e in spec:
        yield e
        for _ in range(4):
            yield {"gen": "walk", "k": wi}
            wi += 1
    while di < ndfs or wi < nwalk:
        if di < ndfs:
            yield {"gen": "dfs", "k": di, "depth": 2 if tier == "quick" else 3}
            di += 1
        for _ in range(15):
            if wi < nwalk:
                yield {"gen": "walk", "k": wi}
                wi += 1


def pick_opts(rng, m, variant=None):
    samples = m.samples()
    if variant is None:
        variant = rng.randrange(4)
    sample_lists = variant % 2 == 1
    thr = 1 if variant < 2 else rng.choice([2, 3])
    if not samples:
        tracked = None
    else:
        r = rng.random()
        tracked = list(samples) if r < 0.3 else rng.sample(samples, rng.randint(1, len(samples))) if r < 0.9 else None
    return {"sample_lists": sample_lists, "root_threshold": thr, "tracked": tracked}


def make_tree(ts, opts):
    kw = {"sample_lists": opts["sample_lists"], "root_threshold": opts["root_threshold"]}
    if opts["tracked"] is not None:
        kw["tracked_samples"] = opts["tracked"]
    return tskit.Tree(ts, **kw)


class Harness:
    """One tree sequence + option set: model transitions, fresh-state cache, comparison."""

    def __init__(self, ctx, m, ts, opts, rng):
        self.ctx, self.m, self.ts, self.opts, self.rng = ctx, m, ts, opts, rng
        self.T = ts.num_trees
        self.n = ts.num_nodes
        self.bps = m.breakpoints()
        self.fresh = {}
        self.failed = False
        self.alphabet = self._alphabet()

    def _alphabet(self):
        ops = [("first",), ("last",), ("next",), ("prev",), ("clear",), ("copy",)]
        for i in range(self.T):
            ops.append(("seek_index", i))
            l, r = self.bps[i], self.bps[i + 1]
            for x in (l, (l + r) / 2, math.nextafter(r, 0)):
                ops.append(("seek", x))
        ops.append(("seek_index", -1))
        ops.append(("seek_index", self.T))
        ops.append(("seek_index", -self.T - 1))
        ops.append(("seek", self.m.L))
        ops.append(("seek", -1.0))
        ops.append(("seek", float("nan")))
        return ops

    def fresh_state(self, i):
        if i not in self.fresh:
            t = make_tree(self.ts, self.opts)
            if i >= 0:
                t.seek_index(i)
            self.fresh[i] = observable_state(t, self.n)
        return self.fresh[i]

    def expect(self, state, op):
        """(new index, expected return, expected exception class or None)"""
        T = self.T
        name = op[0]
        if name == "first":
            return 0, None, None
        if name == "last":
            return T - 1, None, None
        if name == "next":
            if state == -1:
                return 0, True, None
            if state == T - 1:
                return -1, False, None
            return state + 1, True, None
        if name == "prev":
            if state == -1:
                return T - 1, True, None
            if state == 0:
                return -1, False, None
            return state - 1, True, None
        if name == "clear":
            return -1, None, None
        if name == "copy":
            return state, None, None
        if name == "seek_index":
            i = op[1]
            if -T <= i < T:
                return i % T, None, None
            return state, None, IndexError
        if name == "seek":
            x = op[1]
            if not (0 <= x < self.m.L):
                return state, None, ValueError
            for i in range(T):
                if self.bps[i] <= x < self.bps[i + 1]:
                    return i, None, None
        raise AssertionError(op)

    def apply(self, tree, state, op, history):
        """Apply op to the real tree, compare with the model. Returns (tree, new_state)."""
        ctx = self.ctx
        new, exp_ret, exp_exc = self.expect(state, op)
        ctx.count("steps")
        ctx.feature("op:" + op[0])
        try:
            if op[0] == "copy":
                tree = tree.copy()
                ret = None
            elif len(op) == 1:
                ret = getattr(tree, op[0])()
            else:
                ret = getattr(tree, op[0])(op[1])
            raised = None
        except (IndexError, ValueError, tskit.LibraryError) as e:
            raised = e
            ret = None
        hist = history + [op]
        if exp_exc is not None:
            if raised is None:
                self.fail("nav/out-of-range-accepted/" + op[0], f"{op} from index {state} should raise {exp_exc.__name__}; history {hist}")
            ctx.count("error-transitions")
        elif raised is not None:
            self.fail("nav/unexpected-error/" + op[0], f"{op} from index {state} raised {raised!r}; history {hist}")
            return tree, state
        if op[0] in ("next", "prev") and bool(ret) != exp_ret:
            self.fail("nav/return-value/" + op[0], f"{op[0]}() from index {state} returned {ret!r}, expected {exp_ret}; history {hist}")
        self.compare(tree, new, hist)
        return tree, new

    def compare(self, tree, idx, hist):
        ctx = self.ctx
        ctx.count("state-comparisons")
        if tree.index != idx:
            self.fail("nav/wrong-tree", f"tree.index={tree.index} expected {idx} after {hist} (opts {self.opts})")
            return
        got = observable_state(tree, self.n)
        exp = self.fresh_state(idx)
        # total_branch_length is a floating-point sum taken in child order, which is allowed to depend on the path
        if got != exp and abs(got["tbl"] - exp["tbl"]) <= 1e-9 * max(1.0, abs(exp["tbl"])):
            got = dict(got, tbl=exp["tbl"])
        if got != exp:
            diff = [k for k in exp if got[k] != exp[k]]
            self.fail("nav/state-differs/" + "+".join(diff),
                      f"after {hist} (opts {self.opts}) state differs from a fresh tree at index {idx} in {diff}: "
                      f"got { {k: got[k] for k in diff} } expected { {k: exp[k] for k in diff} }")
        if idx >= 0:
            ctx.count("reference-checks")
            bad = check_tree(tree, self.m, self.opts, deep=False)
            for key, msg in bad[:3]:
                self.fail("nav/tree/" + key, f"after {hist} (opts {self.opts}): {msg}")

    def fail(self, key, msg):
        self.failed = True
        self.ctx.violation(key, msg, {"model": self.m.to_json()})

    def dfs(self, depth):
        tree = make_tree(self.ts, self.opts)
        self.compare(tree, -1, [])
        visited = set()

        def rec(tree, state, hist, d):
            if d == 0 or self.failed:
                return
            for op in self.alphabet:
                t2 = tree.copy()
                t2, s2 = self.apply(t2, state, op, hist)
                visited.add((state, op[0], s2))
                if self.failed:
                    return
                rec(t2, s2, hist + [op], d - 1)

        rec(tree, -1, [], depth)
        self.ctx.count("distinct-transitions", len(visited))

    def walk(self, steps):
        tree = make_tree(self.ts, self.opts)
        state = -1
        hist = []
        for _ in range(steps):
            r = self.rng.random()
            if r < 0.45:
                op = self.rng.choice([("next",), ("prev",), ("next",), ("prev",), ("first",), ("last",), ("clear",)])
            else:
                op = self.rng.choice(self.alphabet)
            tree, state = self.apply(tree, state, op, hist[-12:])
            hist.append(op)
            if self.failed:
                return


def run_case(case, ctx):
    rng = case_rng(case)
    if case["gen"] == "special-dfs":
        m = special_models()[case["k"]]
        opts = pick_opts(rng, m, case["opt"])
        if case["k"] == 0:
            opts["tracked"] = [0] if case["opt"] % 2 == 0 else [0, 2]
    elif case["gen"] == "dfs":
        m = gen.gen_full(rng, max_nodes=6, max_bp=2, max_sites=3)
        opts = pick_opts(rng, m)
    else:
        if case["k"] % 25 == 24:
            from lib.props.c01 import build_msprime
            m = build_msprime(rng)  # many trees, arbitrary doubles, ARG nodes
        else:
            m = gen.gen_full(rng, max_nodes=10, max_bp=6, max_sites=5)
        opts = pick_opts(rng, m)
    ts = to_ts(m)
    for t in gen.topo_tags(m):
        ctx.feature(t)
    ctx.feature(f"trees:{min(ts.num_trees, 6)}")
    ctx.sig((case["gen"], m.signature(), str(opts)), nontrivial=True)
    if case.get("k", 9) < 1:
        ctx.sample({"case": case, "opts": opts, "model": m.to_json()})
    h = Harness(ctx, m, ts, opts, rng)
    if case["gen"] in ("special-dfs", "dfs"):
        depth = case["depth"]
        if len(h.alphabet) > 30:
            depth = min(depth, 3)
        h.dfs(depth)
        ctx.count("dfs-runs")
    else:
        h.walk(rng.randint(20, 80))
        ctx.count("walks")
