import os

from lib.props.meta_common import ASSUME_COMMON

ID = "C07"
META = dict(
    LEVEL="exploration",
    RULE=("valid forest-walk collections (row metadata on every table, individuals, populations, migrations, "
          "known/unknown mutation times, optional duplicate site positions with 2..9 rows per position, optional "
          "arbitrary in-range mutation parents) pushed through a row-order scrambler (edges, sites, mutations, "
          "migrations, individuals, populations permuted with ids remapped; nodes fixed) and then through sort() with "
          "every edge_start/site_start/mutation_start class (0, 1, k, len-1, len, len+1, 2^31, 2^32, 2^63-1, beyond "
          "ssize_t, negative; every documented-invalid site/mutation pair) in every argument form (positional, "
          "keyword, reordered keywords, numpy integers, defaults omitted, low-level method), the documented repair "
          "pipeline followed by five routes to a TreeSequence, canonicalise() of two independent scrambles in seven "
          "argument forms, compute_mutation_parents, deduplicate_sites, sort_individuals and EdgeTable.squash "
          "(standalone and as the edge table of a collection, one-ulp gaps, up to 300 pieces); collections are built "
          "by add_row and, in a fixed share, dressed with metadata schemas / top-level metadata / reference sequence / "
          "provenance and re-materialised through copy, fromdict, pickle, dump+load or set_columns; each result is "
          "compared row-for-row with a Python reference written from the docs, everything an operation must not touch "
          "is compared byte-wise, and the repaired collection is loaded and compared tree-by-tree and "
          "genotype-by-genotype with the unscrambled original. Large instances (257-641 nodes as star / chain / levels / "
          "broom / random, >= 255 mutations stacked on one branch or one per node, 256-640 individuals as chain / star / "
          "DAG pedigrees, 300 populations, 300 tied migrations, ragged columns and single rows beyond 64 KiB, up to 300 "
          "rows per site position) and collections with more than 2^16 edges, sites and mutations run at the head of the "
          "stream. Small scope: every permutation of the rows of one table (<= 4 rows quick, <= 5 thorough) of fixed "
          "small collections; empty and one-row tables. A case is distinct by the sha1 of its full scrambled row tuples "
          "and call arguments; non-triviality is per kind (>= 2 sortable rows, a real scramble, >= 1 computed parent, a "
          "removed duplicate site, ...)."),
    REQUIRED=["parents:first-row-of-site-is-a-child", "sort:ref", "sort:idempotent", "sort:untouched-tables", "sort:invalid-start-rejected",
              "sort:partial-then-full", "repair:loads", "repair:trees", "repair:genotypes",
              "repair:compute_mutation_parents", "repair:deduplicate_sites", "repair:compute_mutation_times",
              "repair:load-forms", "canon:two-scrambles-identical", "canon:ref", "parents:ref", "dedup:ref",
              "sortind:ref", "squash:ref", "exh:edges-permutations", "exh:mutations-permutations",
              "untouched:schemas-toplevel-other-tables", "big:sort", "big:canon", "big:repair", "big:sortind",
              "big:dedup", "big:squash", "big:parents", "huge:sort", "tiny:identity"],
    ASSUMPTIONS=ASSUME_COMMON + [
        "edges/migrations with equal sort keys may come out in any relative order (multiset + key order compared)",
        "canonicalise(): the order of the individual table is not asserted beyond invariance under row permutation",
        "compute_mutation_times values are compared with rtol 1e-9",
        "start arguments that are negative or beyond ssize_t may be refused with any error type",
        "metadata schemas are attached after the rows were written (row metadata is opaque bytes to every operation "
        "checked here)",
    ],
    BUDGET={"quick": 40.0,
            # seconds per worker; VERIF_C07_THOROUGH_BUDGET shortens it for development runs only
            "thorough": float(os.environ.get("VERIF_C07_THOROUGH_BUDGET", 840.0))},
    EXHAUSTIVE={"quick": False, "thorough": False},
)
