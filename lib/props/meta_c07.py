import os

from lib.props.meta_common import ASSUME_COMMON

ID = "C07"
META = dict(
    LEVEL="exploration",
    RULE=("valid forest-walk collections (row metadata on every table, individuals, populations, migrations, "
          "known/unknown mutation times, optional duplicate site positions, optional arbitrary in-range mutation "
          "parents) pushed through a row-order scrambler (edges, sites, mutations, migrations, individuals, "
          "populations permuted with ids remapped; nodes fixed) and then through sort() with every "
          "edge_start/site_start/mutation_start class, the documented repair pipeline, canonicalise() of two "
          "independent scrambles, compute_mutation_parents, deduplicate_sites, sort_individuals and "
          "EdgeTable.squash; each result is compared row-for-row with a Python reference written from the docs, and "
          "the repaired collection is loaded and compared tree-by-tree and genotype-by-genotype with the "
          "unscrambled original. Small scope: every permutation of the rows of one table (<= 4 rows quick, <= 5 "
          "thorough) of fixed small collections. A case is distinct by the sha1 of its full scrambled row tuples "
          "and call arguments; non-triviality is per kind (>= 2 sortable rows, a real scramble, >= 1 computed "
          "parent, a removed duplicate site, ...)."),
    REQUIRED=["sort:ref", "sort:idempotent", "sort:untouched-tables", "sort:invalid-start-rejected",
              "repair:loads", "repair:trees", "repair:genotypes", "repair:compute_mutation_parents",
              "repair:deduplicate_sites", "repair:compute_mutation_times", "canon:two-scrambles-identical",
              "canon:ref", "parents:ref", "dedup:ref", "sortind:ref", "squash:ref", "exh:edges-permutations",
              "exh:mutations-permutations"],
    ASSUMPTIONS=ASSUME_COMMON + [
        "edges/migrations with equal sort keys may come out in any relative order (multiset + key order compared)",
        "canonicalise(): the order of the individual table is not asserted beyond invariance under row permutation",
        "compute_mutation_times values are compared with rtol 1e-9",
    ],
    BUDGET={"quick": 40.0,
            # seconds per worker; VERIF_C07_THOROUGH_BUDGET shortens it for development runs only
            "thorough": float(os.environ.get("VERIF_C07_THOROUGH_BUDGET", 840.0))},
    EXHAUSTIVE={"quick": False, "thorough": False},
)
