"""C14 — subset and union retain exactly the referenced data and invert each other.

Reference semantics (written from the TreeSequence.subset / TreeSequence.union docstrings):

  ref_subset   nodes = listed nodes in listed order; edges with both ends listed; mutations on listed
               nodes with their sites; individuals / populations per remove_unreferenced and
               reorder_populations; ids remapped; row data unchanged.
  ref_union    self + the NULL-mapped nodes of other and the edges, mutations, sites, individuals and
               populations that involve them; then sort, de-duplicate sites, mutation parents.

EITHER zones (documented here, accepted by the oracles):
  E1  order of retained individuals after subset: the docstring says "ordered by the earliest retained node",
      the implementation keeps the original relative order, the property fixes no order.  Three concrete
      layouts are accepted (original order / first-referencing-node order / referenced-in-original-order then
      unreferenced), each with consistently remapped ids.
  E2  a retained individual whose parent individual is not retained: the docs say nothing; the dangling
      reference may be dropped from the list or replaced by NULL.
  E3  node lists with duplicates: undocumented; only memory safety and "returns or raises a tskit error".
  E4  union when, after the documented sort, a mutation would precede a mutation on a strict ancestor at the
      same site (only possible with unknown / tied times): union may raise a LibraryError (mutation parent
      after child) or return; nothing else is asserted for such a case.
  E5  tables after a *failed* subset/union are not specified (the implementation clears them).
"""
import json

import tskit

from lib import gen
from lib.harness import case_rng
from lib.model import NULL, forest, mutation_parents
from lib.tsk import from_tables, to_tables

ID = "C14"

LIBERR = (tskit.LibraryError,)


def _sig(ctx, case, obj, nontrivial=True):
    """Case signature for the distinct-non-trivial count.  In the thorough tier only every 8th case is recorded
    (the worker rewrites the whole signature set every 50 cases; millions of entries would dominate the run), so
    the reported number is a lower bound there."""
    if case.get("tier") == "thorough" and case.get("idx", 0) % 8:
        return
    ctx.sig(obj, nontrivial=nontrivial)


# =========================================================================== reference semantics


def ref_sort(m, edge_start=0, skip_sites=False):
    """TableCollection.sort() as documented.  Edges from edge_start on by (time[parent], parent, child,
    left); sites by position (stable); mutations by site, then decreasing time when known, ties and unknown
    times keep their relative order; migrations by (time, source, dest, left, node).  mutation.site and
    mutation.parent follow the permutation.  Nodes, individuals, populations, provenances untouched.
    Python's sort is stable; for rows with equal keys the documentation promises nothing for edges and
    migrations, so callers compare those two tables as multisets + key order."""
    out = m.copy()
    head = list(m.edges[:edge_start])
    tail = sorted(m.edges[edge_start:], key=lambda e: (m.nodes[e[2]][1], e[2], e[3], e[0]))
    out.edges = head + tail
    out.migrations = sorted(m.migrations, key=lambda g: (g[5], g[3], g[4], g[0], g[2]))
    if not skip_sites:
        sorder = sorted(range(len(m.sites)), key=lambda j: (m.sites[j][0], j))
        smap = {old: new for new, old in enumerate(sorder)}
        out.sites = [m.sites[j] for j in sorder]

        def mkey(k):
            mu = m.mutations[k]
            return (smap[mu[0]], -mu[4] if mu[4] is not None else 0.0, k)

        morder = sorted(range(len(m.mutations)), key=mkey)
        mmap = {old: new for new, old in enumerate(morder)}
        out.mutations = []
        for k in morder:
            s, u, d, p, t, md = m.mutations[k]
            out.mutations.append((smap[s], u, d, mmap[p] if p != NULL else NULL, t, md))
    return out


def ref_dedup_sites(m):
    """deduplicate_sites(): requires sites sorted by position; keeps the first row of each position and
    renumbers mutation.site; mutation rows otherwise untouched (incl. their order)."""
    out = m.copy()
    keep = []
    smap = {}
    for j, s in enumerate(m.sites):
        if keep and m.sites[keep[-1]][0] == s[0]:
            smap[j] = len(keep) - 1
        else:
            keep.append(j)
            smap[j] = len(keep) - 1
    out.sites = [m.sites[j] for j in keep]
    out.mutations = [(smap[s], u, d, p, t, md) for s, u, d, p, t, md in m.mutations]
    return out


IND_LAYOUTS = ("original", "first-node", "referenced-first")
PARENT_MODES = ("drop", "null")


def ref_subset(m, nodes, reorder_populations=True, remove_unreferenced=True, ind_layout="original",
               parent_mode="drop"):
    """Low-level subset (no sort).  `nodes` must not contain duplicates."""
    out = m.copy()
    node_map = {old: new for new, old in enumerate(nodes)}
    # individuals
    referenced = []
    for u in nodes:
        i = m.nodes[u][3]
        if i != NULL and i not in referenced:
            referenced.append(i)
    refset = set(referenced)
    n_ind = len(m.individuals)
    others = [i for i in range(n_ind) if i not in refset]
    if remove_unreferenced:
        kept = list(referenced) if ind_layout == "first-node" else sorted(referenced)
    else:
        if ind_layout == "original":
            kept = list(range(n_ind))
        elif ind_layout == "first-node":
            kept = list(referenced) + others
        else:
            kept = sorted(referenced) + others
    ind_map = {old: new for new, old in enumerate(kept)}
    inds = []
    for i in kept:
        fl, loc, par, md = m.individuals[i]
        newpar = []
        for p in par:
            if p == NULL:
                newpar.append(NULL)
            elif p in ind_map:
                newpar.append(ind_map[p])
            elif parent_mode == "null":
                newpar.append(NULL)
        inds.append((fl, loc, tuple(newpar), md))
    out.individuals = inds
    # populations
    n_pop = len(m.populations)
    if not reorder_populations:
        pops = list(range(n_pop))
    else:
        pops = []
        for u in nodes:
            p = m.nodes[u][2]
            if p != NULL and p not in pops:
                pops.append(p)
        if not remove_unreferenced:
            pops = pops + [p for p in range(n_pop) if p not in pops]
    pop_map = {old: new for new, old in enumerate(pops)}
    out.populations = [m.populations[p] for p in pops]
    # nodes
    out.nodes = []
    for u in nodes:
        fl, t, p, i, md = m.nodes[u]
        out.nodes.append((fl, t, pop_map[p] if p != NULL else NULL, ind_map[i] if i != NULL else NULL, md))
    # edges
    out.edges = [(l, r, node_map[p], node_map[c], md) for l, r, p, c, md in m.edges
                 if p in node_map and c in node_map]
    # mutations and sites
    keptm = [k for k, mu in enumerate(m.mutations) if mu[1] in node_map]
    mmap = {old: new for new, old in enumerate(keptm)}
    used_sites = {m.mutations[k][0] for k in keptm}
    if remove_unreferenced:
        kepts = [j for j in range(len(m.sites)) if j in used_sites]
    else:
        kepts = list(range(len(m.sites)))
    smap = {old: new for new, old in enumerate(kepts)}
    out.sites = [m.sites[j] for j in kepts]
    out.mutations = []
    for k in keptm:
        s, u, d, p, t, md = m.mutations[k]
        out.mutations.append((smap[s], node_map[u], d, mmap.get(p, NULL) if p != NULL else NULL, t, md))
    out.migrations = []
    return out


def compare_individuals(got, src, node_list, remove_unreferenced):
    """Individuals 'as a set with consistent id remapping' (E1, E2).  got: model read back; src: input model;
    node_list[k] = source id of result node k.  Returns a list of messages (empty = consistent)."""
    if len(got.nodes) != len(node_list):
        return []  # reported by the node comparison
    imap, rev = {}, {}
    for k, u in enumerate(node_list):
        oi, gi = src.nodes[u][3], got.nodes[k][3]
        if (oi == NULL) != (gi == NULL):
            return [f"node {k} (source {u}): individual {gi}, source individual {oi}"]
        if oi == NULL:
            continue
        if not (0 <= gi < len(got.individuals)):
            return [f"node {k}: individual id {gi} out of range"]
        if imap.setdefault(oi, gi) != gi or rev.setdefault(gi, oi) != oi:
            return [f"node {k} (source {u}): individual {gi} inconsistent with earlier nodes (source "
                    f"individual {oi}; map so far {imap})"]
    referenced = set(imap)
    want = len(referenced) if remove_unreferenced else len(src.individuals)
    if len(got.individuals) != want:
        return [f"{len(got.individuals)} individuals, expected {want} (referenced: {sorted(referenced)})"]
    todo = sorted(referenced)
    done = set()
    while todo:
        oi = todo.pop()
        if oi in done:
            continue
        done.add(oi)
        fl, loc, par, md = src.individuals[oi]
        gfl, gloc, gpar, gmd = got.individuals[imap[oi]]
        if (fl, loc, md) != (gfl, gloc, gmd):
            return [f"individual {imap[oi]} = {got.individuals[imap[oi]]}, source row {oi} = {src.individuals[oi]}"]
        if remove_unreferenced:
            strict = tuple(NULL if p == NULL else imap[p] for p in par if p == NULL or p in imap)
            nulled = tuple(NULL if (p == NULL or p not in imap) else imap[p] for p in par)
            if gpar != strict and gpar != nulled:
                return [f"individual {imap[oi]} parents {gpar}, source row {oi} parents {par} under map {imap}"]
        else:
            if len(gpar) != len(par):
                return [f"individual {imap[oi]} parents {gpar}, source row {oi} parents {par}"]
            for p, gp in zip(par, gpar):
                if p == NULL or gp == NULL:
                    if p != gp:
                        return [f"individual {imap[oi]} parents {gpar}, source parents {par} under map {imap}"]
                    continue
                if not (0 <= gp < len(got.individuals)):
                    return [f"individual {imap[oi]}: parent id {gp} out of range"]
                if imap.setdefault(p, gp) != gp or rev.setdefault(gp, p) != p:
                    return [f"individual {imap[oi]} parents {gpar}, source parents {par}: inconsistent with {imap}"]
                if p not in done:
                    todo.append(p)
    if not remove_unreferenced:
        rest_src = _msorted([src.individuals[i][:2] + (len(src.individuals[i][2]), src.individuals[i][3])
                             for i in range(len(src.individuals)) if i not in imap])
        rest_got = _msorted([got.individuals[i][:2] + (len(got.individuals[i][2]), got.individuals[i][3])
                             for i in range(len(got.individuals)) if i not in rev])
        if rest_src != rest_got:
            return ["unreferenced individuals differ: " + _first_diff(rest_got, rest_src)]
    return []


def mask_individuals(m):
    """Copy with the individual table and node.individual blanked (compared separately)."""
    o = m.copy()
    o.nodes = [(fl, t, p, NULL, md) for fl, t, p, i, md in m.nodes]
    o.individuals = []
    return o


def diff_subset(got, src, node_list, exp, remove_unreferenced):
    d = diff_models(mask_individuals(got), mask_individuals(exp))
    d += [("individuals", x) for x in compare_individuals(got, src, node_list, remove_unreferenced)]
    return d


def permute_nodes(m, order):
    """Pure relabelling: new node k is old node order[k]; every node reference is remapped; nothing else
    moves."""
    out = m.copy()
    nm = {old: new for new, old in enumerate(order)}
    assert len(nm) == len(m.nodes) == len(order)
    out.nodes = [m.nodes[u] for u in order]
    out.edges = [(l, r, nm[p], nm[c], md) for l, r, p, c, md in m.edges]
    out.mutations = [(s, nm[u], d, p, t, md) for s, u, d, p, t, md in m.mutations]
    out.migrations = [(l, r, nm[u], a, b, t, md) for l, r, u, a, b, t, md in m.migrations]
    return out


def strict_ancestor_later(m):
    """E4 detector: is there a site with mutation rows a < b where node(b) is a strict ancestor of node(a)
    at that position?  Then the row order does not put parents first and no order-based rule applies."""
    for j, s in enumerate(m.sites):
        ks = m.site_mutations(j)
        if len(ks) < 2:
            continue
        fr = forest(m, s[0])
        for ia, a in enumerate(ks):
            anc = set(fr.path_up(m.mutations[a][1])[1:])
            for b in ks[ia + 1:]:
                if m.mutations[b][1] in anc:
                    return True
    return False


def ref_union(sm, om, mapping, add_populations=True, parent_mode="null"):
    """self + non-shared part of other (documented steps 1-4 + populations), then the documented
    sort / deduplicate / mutation-parent computation.  Returns (model, either_zone)."""
    out = sm.copy()
    n_other = len(om.nodes)
    assert len(mapping) == n_other
    new_nodes = [k for k in range(n_other) if mapping[k] == NULL]
    node_map = {k: mapping[k] for k in range(n_other) if mapping[k] != NULL}
    # individuals linked to a shared node are the same individual as in self
    ind_map = {}
    for k in range(n_other):
        if mapping[k] != NULL and om.nodes[k][3] != NULL:
            ind_map[om.nodes[k][3]] = sm.nodes[mapping[k]][3]
    pop_map = {}
    first_new_ind = len(out.individuals)
    for k in new_nodes:
        fl, t, p, i, md = om.nodes[k]
        ni = NULL
        if i != NULL:
            if i not in ind_map:
                out.individuals.append(om.individuals[i])  # parents remapped below
                ind_map[i] = len(out.individuals) - 1
            ni = ind_map[i]
        np_ = NULL
        if p != NULL:
            if add_populations:
                if p not in pop_map:
                    out.populations.append(om.populations[p])
                    pop_map[p] = len(out.populations) - 1
                np_ = pop_map[p]
            else:
                np_ = p
        out.nodes.append((fl, t, np_, ni, md))
        node_map[k] = len(out.nodes) - 1
    for x in range(first_new_ind, len(out.individuals)):
        fl, loc, par, md = out.individuals[x]
        newpar = []
        for p in par:
            if p == NULL:
                newpar.append(NULL)
            elif ind_map.get(p, NULL) != NULL:
                newpar.append(ind_map[p])
            elif parent_mode == "null":
                newpar.append(NULL)
        out.individuals[x] = (fl, loc, tuple(newpar), md)
    newset = set(new_nodes)
    for l, r, p, c, md in om.edges:
        if p in newset or c in newset:
            out.edges.append((l, r, node_map[p], node_map[c], md))
    pos_to_site = {}
    for j, s in enumerate(out.sites):
        pos_to_site.setdefault(s[0], j)
    site_map = {}
    for k, (s, u, d, p, t, md) in enumerate(om.mutations):
        if u in newset:
            if s not in site_map:
                pos = om.sites[s][0]
                if pos not in pos_to_site:
                    out.sites.append(om.sites[s])
                    pos_to_site[pos] = len(out.sites) - 1
                site_map[s] = pos_to_site[pos]
            out.mutations.append((site_map[s], node_map[u], d, NULL, t, md))
    # parents are recomputed for every mutation
    out.mutations = [(s, u, d, NULL, t, md) for s, u, d, p, t, md in out.mutations]
    out.migrations = []
    out = ref_sort(out)
    either = strict_ancestor_later(out)
    par = mutation_parents(out)
    out.mutations = [(s, u, d, par[k], t, md) for k, (s, u, d, _, t, md) in enumerate(out.mutations)]
    return out, either


# =========================================================================== comparison helpers

RAGGED = {
    "nodes": [("metadata", "metadata_offset")],
    "edges": [("metadata", "metadata_offset")],
    "sites": [("ancestral_state", "ancestral_state_offset"), ("metadata", "metadata_offset")],
    "mutations": [("derived_state", "derived_state_offset"), ("metadata", "metadata_offset")],
    "individuals": [("location", "location_offset"), ("parents", "parents_offset"),
                    ("metadata", "metadata_offset")],
    "populations": [("metadata", "metadata_offset")],
    "migrations": [("metadata", "metadata_offset")],
    "provenances": [("timestamp", "timestamp_offset"), ("record", "record_offset")],
}


def bad_offsets(tc):
    """Structural validity of every ragged column: offsets start at 0, never decrease, one per row + 1.
    (The end is compared with the data length only through the offsets themselves: reading a data column
    whose offsets are broken can raise SystemError.)  Returns [(table, column, offsets list)]."""
    bad = []
    for name, cols in RAGGED.items():
        t = getattr(tc, name)
        for data, off in cols:
            o = [int(x) for x in getattr(t, off)]
            ok = len(o) == t.num_rows + 1 and o[0] == 0 and all(o[i] <= o[i + 1] for i in range(len(o) - 1))
            if ok:
                try:
                    ok = len(getattr(t, data)) == o[-1]
                except SystemError:
                    ok = False
            if not ok:
                bad.append((name, off, o))
    return bad


def stale_index(tc):
    """An index that is present must be the index of the current rows.  None if absent or right, else a
    message.  (Only decidable when the rows can be indexed at all.)"""
    if not tc.has_index():
        return None
    fresh = tc.copy()
    try:
        fresh.drop_index()
        fresh.build_index()
    except LIBERR:
        return None
    a, b = tc.indexes, fresh.indexes
    ai, ar = [int(x) for x in a.edge_insertion_order], [int(x) for x in a.edge_removal_order]
    bi, br = [int(x) for x in b.edge_insertion_order], [int(x) for x in b.edge_removal_order]
    if (ai, ar) != (bi, br):
        return f"index present after the call (insertion {ai}, removal {ar}) is not the index of the rows ({bi}, {br})"
    return None


def edge_key(m):
    return lambda e: (m.nodes[e[2]][1], e[2], e[3], e[0])


def mig_key(g):
    return (g[5], g[3], g[4], g[0], g[2])


def _msorted(rows):
    return sorted(rows, key=repr)


def diff_models(got, exp, tables=("nodes", "edges", "sites", "mutations", "individuals", "populations",
                                  "migrations"), edge_start=0):
    """First difference per table between a model read back from tskit and an expected model.
    Edges (from edge_start) and migrations: multiset equality + documented key order; others exact."""
    out = []
    if got.L != exp.L:
        out.append(("sequence_length", f"{got.L} expected {exp.L}"))
    for name in tables:
        g, e = getattr(got, name), getattr(exp, name)
        if name == "edges":
            if g[:edge_start] != e[:edge_start]:
                out.append((name, f"rows before edge_start={edge_start} changed: {g[:edge_start]} expected "
                                  f"{e[:edge_start]}"))
            gt, et = g[edge_start:], e[edge_start:]
            if _msorted(gt) != _msorted(et):
                out.append((name, "row multiset differs: " + _first_diff(_msorted(gt), _msorted(et))))
            else:
                ks = [edge_key(got)(x) for x in gt]
                if any(ks[i] > ks[i + 1] for i in range(len(ks) - 1)):
                    out.append((name, f"not in (time[parent], parent, child, left) order: {gt}"))
        elif name == "migrations":
            if _msorted(g) != _msorted(e):
                out.append((name, "row multiset differs: " + _first_diff(_msorted(g), _msorted(e))))
            else:
                ks = [mig_key(x) for x in g]
                if any(ks[i] > ks[i + 1] for i in range(len(ks) - 1)):
                    out.append((name, f"not in (time, source, dest, left, node) order: {g}"))
        elif g != e:
            out.append((name, _first_diff(g, e)))
    return out


def _first_diff(g, e):
    if len(g) != len(e):
        extra = f"{len(g)} rows, expected {len(e)}; "
    else:
        extra = ""
    for j in range(min(len(g), len(e))):
        if g[j] != e[j]:
            return f"{extra}row {j}: got {g[j]} expected {e[j]}"
    if len(g) > len(e):
        return f"{extra}unexpected row {len(e)}: {g[len(e)]}"
    if len(e) > len(g):
        return f"{extra}missing row {len(g)}: {e[len(g)]}"
    return extra + "equal"


def best_match(got, candidates, **kw):
    """Compare with every accepted layout; returns [] if one matches, else the diff against the closest."""
    best = None
    for c in candidates:
        d = diff_models(got, c, **kw)
        if not d:
            return []
        if best is None or len(d) < len(best):
            best = d
    return best


def read_back(tc):
    """(model, None) or (None, bad) if a ragged column is structurally broken."""
    bad = bad_offsets(tc)
    if bad:
        return None, bad
    return from_tables(tc), None


# =========================================================================== workload


def cases(tier, seed):
    n = 60000 if tier == "quick" else 3000000
    for k in range(n):
        r = k % 10
        if r < 5:
            yield {"gen": "subset", "k": k}
        elif r < 8:
            yield {"gen": "union", "k": k}
        else:
            yield {"gen": "law", "k": k}


def msprime_model(rng, migrations=False, mutations=True):
    """A small msprime simulation read back into a RowModel (arbitrary double coordinates/times; schemas and
    provenance stripped so that rows are plain bytes)."""
    import msprime

    from lib.tsk import from_tables as _ft
    seed = rng.randint(1, 2 ** 31 - 1)
    n = rng.randint(2, 5)
    L = rng.choice([5, 10, 20])
    discrete = rng.random() < 0.5
    if migrations:
        demog = msprime.Demography.island_model([10, 10], 0.2)
        ts = msprime.sim_ancestry(samples={0: n, 1: 1}, demography=demog, sequence_length=L,
                                  recombination_rate=rng.choice([0.02, 0.1]), random_seed=seed,
                                  record_migrations=True, discrete_genome=discrete, ploidy=rng.choice([1, 2]))
    else:
        model = rng.choice(["hudson", "dtwf"])
        ts = msprime.sim_ancestry(samples=n, sequence_length=L, recombination_rate=rng.choice([0, 0.05, 0.2]),
                                  random_seed=seed, population_size=10, discrete_genome=discrete,
                                  model=model, ploidy=2 if model == "dtwf" else rng.choice([1, 2]))
    if mutations:
        ts = msprime.sim_mutations(ts, rate=rng.choice([0.01, 0.05]), random_seed=seed, discrete_genome=discrete,
                                   model=rng.choice(["jc69", "binary"]))
    m = _ft(ts.dump_tables())
    m.schemas = {}
    m.metadata_schema = ""
    m.provenances = []
    m.tags = {"msprime"}
    if m.migrations:
        m.tags.add("migrations")
    if any(mu[4] is not None for mu in m.mutations):
        m.tags.add("mutation-times")
    return m


def base_model(rng, big=False, tier="quick"):
    if rng.random() < 0.05:
        m = msprime_model(rng)
        if rng.random() < 0.5:
            gen.decorate_meta(rng, m, tables=("nodes", "edges", "sites", "mutations", "individuals", "populations"))
        return m
    if tier == "thorough" and rng.random() < 0.2:
        big = True
    m = gen.gen_full(rng, max_nodes=14 if big else 8, max_bp=4, max_sites=5,
                     pops=rng.random() < 0.8, meta=rng.random() < 0.7, migrations=False)
    if rng.random() < 0.2:
        m.provenances = [("2020-01-01T00:00:00", json.dumps({"x": rng.randint(0, 9)}))]
    return m


def run_case(case, ctx):
    g = case["gen"]
    if g == "subset":
        run_subset(case, ctx)
    elif g == "union":
        run_union(case, ctx)
    elif g == "law":
        run_law(case, ctx)
    else:
        raise ValueError(g)


# --------------------------------------------------------------------------- subset


def node_list(rng, m):
    n = len(m.nodes)
    kind = rng.choice(["random", "random", "random", "all", "all-perm", "reverse", "empty", "non-samples",
                       "samples", "single", "dups", "oob"])
    ids = list(range(n))
    if kind == "random":
        lst = rng.sample(ids, rng.randint(0, n))
    elif kind == "all":
        lst = ids
    elif kind == "all-perm":
        lst = rng.sample(ids, n)
    elif kind == "reverse":
        lst = ids[::-1]
    elif kind == "empty":
        lst = []
    elif kind == "non-samples":
        lst = [u for u in ids if not m.is_sample(u)]
        rng.shuffle(lst)
    elif kind == "samples":
        lst = [u for u in ids if m.is_sample(u)]
        rng.shuffle(lst)
    elif kind == "single":
        lst = [rng.randrange(n)]
    elif kind == "dups":
        lst = rng.sample(ids, rng.randint(1, n))
        lst.insert(rng.randint(0, len(lst)), rng.choice(lst))
    else:
        lst = rng.sample(ids, rng.randint(0, n))
        lst.insert(rng.randint(0, len(lst)), rng.choice([n, n + 5, -1, -2, 2 ** 31 - 1]))
    return kind, lst


def check_provenance(ctx, key, before, after, record, command, extra=None):
    ctx.count("provenance")
    if not record:
        if after != before:
            ctx.violation(f"{key}/provenance-added", f"record_provenance=False but provenances {before} -> {after}")
        return
    if len(after) != len(before) + 1 or after[:len(before)] != before:
        ctx.violation(f"{key}/provenance-missing", f"record_provenance=True: provenances {before} -> {after}")
        return
    try:
        rec = json.loads(after[-1][1])
        params = rec["parameters"]
        ok = params["command"] == command
        for k, v in (extra or {}).items():
            ok = ok and params.get(k) == v
    except Exception as e:  # noqa: BLE001
        ok = False
        params = repr(e)
    if not ok:
        ctx.violation(f"{key}/provenance-record", f"provenance record parameters {params} expected command "
                                                   f"{command} {extra}")


def run_subset(case, ctx):
    rng = case_rng(case)
    m = base_model(rng, big=rng.random() < 0.15, tier=case["tier"])
    kind, lst = node_list(rng, m)
    reorder = rng.random() < 0.5
    remove = rng.random() < 0.5
    record = rng.random() < 0.5
    variant = rng.choice(["tables", "ts"])
    scrambled = False
    if variant == "tables" and kind not in ("dups", "oob") and rng.random() < 0.15:
        # TableCollection.subset needs referential integrity only: also feed unsorted rows
        from lib.props.c07 import scramble
        m = scramble(rng, m, nodes_fixed=True)
        scrambled = True
    ctx.feature(f"subset:{kind}")
    ctx.feature(f"subset:{variant}")
    ctx.feature(f"subset:reorder={int(reorder)},remove={int(remove)}")
    if scrambled:
        ctx.feature("subset:scrambled-input")
    for t in m.tags:
        ctx.feature(t)
    nontrivial = kind not in ("dups", "oob", "empty") and len(lst) > 0 and (len(m.edges) > 0 or len(m.mutations) > 0)
    _sig(ctx, case, ("subset", m.signature(), tuple(lst), reorder, remove, variant), nontrivial=nontrivial)
    if case["k"] < 20:
        ctx.sample({"case": case, "nodes": lst, "reorder_populations": reorder, "remove_unreferenced": remove,
                    "variant": variant, "model": m.to_json()})
    detail = {"model": m.to_json(), "nodes": lst, "reorder_populations": reorder,
              "remove_unreferenced": remove, "variant": variant, "record_provenance": record}
    tc = to_tables(m, with_index=(not scrambled and rng.random() < 0.5))
    arg = lst
    if lst and rng.random() < 0.3:
        import numpy as np
        arg = np.array(lst, dtype=rng.choice([np.int32, np.int64, np.uint32 if min(lst) >= 0 else np.int64]))
        ctx.feature("subset:numpy-node-list")
    kw = dict(record_provenance=record, reorder_populations=reorder, remove_unreferenced=remove)
    if rng.random() < 0.5:
        # documented defaults: record_provenance=True, reorder_populations=True, remove_unreferenced=True
        kw = {k: v for k, v in kw.items() if not v}
        ctx.feature("subset:defaults-omitted")
    src_ts = None
    try:
        if variant == "ts":
            src_ts = tc.tree_sequence()
            res = src_ts.subset(arg, **kw).dump_tables()
        else:
            res = tc
            res.subset(arg, **kw)
        err = None
    except LIBERR as e:
        err = e
    except (ValueError, OverflowError, TypeError) as e:
        err = e
    if kind == "oob":
        ctx.count("subset:out-of-range-rejected")
        if err is None:
            ctx.violation("subset/out-of-range-node-accepted", f"subset({lst}) on {len(m.nodes)} nodes returned",
                          detail)
        return
    if kind == "dups":
        ctx.count("subset:duplicates(either)")  # E3
        return
    if err is not None:
        ctx.violation("subset/raised", f"subset({lst}, {kw}) raised {type(err).__name__}: {err}", detail)
        return
    got, bad = read_back(res)
    ctx.count("subset:ref")
    if bad:
        ctx.violation("subset/broken-offsets", f"subset({lst}, {kw}): ragged columns broken {bad}", detail)
        return
    exp = ref_sort(ref_subset(m, lst, reorder, remove))
    d = diff_subset(got, m, lst, exp, remove)
    ctx.count("subset:index-consistent")
    msg = stale_index(res)
    if msg:
        ctx.violation("subset/stale-index", f"subset({lst}, {kw}) [{variant}]: {msg}", detail)
    for name, msg in d[:3]:
        ctx.violation(f"subset/{name}", f"subset({lst}, reorder_populations={reorder}, remove_unreferenced={remove}) "
                                        f"[{variant}] {name}: {msg}", detail)
    check_provenance(ctx, "subset", m.provenances, got.provenances, record, "subset", {"nodes": lst})
    if (got.metadata, got.time_units) != (m.metadata, m.time_units):
        ctx.violation("subset/top-level", f"top-level metadata/time_units changed: {got.metadata, got.time_units}")
    if variant == "ts":
        # the source tree sequence is immutable
        ctx.count("subset:source-unchanged")
        if from_tables(src_ts.dump_tables()).signature() != m.signature():
            ctx.violation("subset/source-modified", "TreeSequence.subset changed its source", detail)
    elif not d:
        # the result of subsetting a valid tree sequence loads
        ctx.count("subset:loads")
        try:
            res.tree_sequence()
        except LIBERR as e:
            if not scrambled:
                ctx.violation("subset/result-does-not-load", f"subset({lst}, {kw}) result rejected: {e}", detail)


# --------------------------------------------------------------------------- union


def split_for_union(rng, m, independent=False):
    """Choose shared S and exclusive X (self), Y (other) node sets."""
    n = len(m.nodes)
    ids = list(range(n))
    r = rng.random()
    S, X, Y = [], [], []
    for u in ids:
        q = rng.random()
        if r < 0.1:
            part = "Y" if q < 0.5 else "S"          # nothing exclusive to self
        elif r < 0.2:
            part = "X" if q < 0.5 else "Y"          # nothing shared
        elif r < 0.25:
            part = "S"                              # nothing new
        else:
            part = "S" if q < 0.4 else ("X" if q < 0.6 else ("Y" if q < 0.9 else "-"))
        if part == "S":
            S.append(u)
        elif part == "X":
            X.append(u)
        elif part == "Y":
            Y.append(u)
    return S, X, Y


PERTURB = ("node-metadata", "node-flags", "edge-removed", "edge-metadata", "edge-interval",
           "mutation-derived", "mutation-metadata", "site-ancestral", "site-metadata", "individual-flags",
           "individual-metadata", "individual-location", "population-metadata")


def perturb_shared(rng, om, shared_ids):
    """Change one datum of the shared portion of `other` (om: model; shared_ids: its shared node ids).
    Returns (kind, model) or None when no such datum exists."""
    sh = set(shared_ids)
    kinds = list(PERTURB)
    rng.shuffle(kinds)
    for kind in kinds:
        o = om.copy()
        if kind.startswith("node") and sh:
            u = rng.choice(sorted(sh))
            fl, t, p, i, md = o.nodes[u]
            if kind == "node-metadata":
                md = flip(rng, md)
            else:
                fl ^= 1 << rng.choice([1, 5, 20])
            o.nodes[u] = (fl, t, p, i, md)
            return kind, o
        if kind.startswith("edge"):
            es = [j for j, e in enumerate(o.edges) if e[2] in sh and e[3] in sh]
            if not es:
                continue
            j = rng.choice(es)
            l, r, p, c, md = o.edges[j]
            if kind == "edge-removed":
                del o.edges[j]
            elif kind == "edge-metadata":
                o.edges[j] = (l, r, p, c, flip(rng, md))
            else:
                mid = (l + r) / 2
                o.edges[j] = (l, mid, p, c, md) if rng.random() < 0.5 else (mid, r, p, c, md)
            return kind, o
        if kind.startswith("mutation") or kind.startswith("site"):
            ks = [k for k, mu in enumerate(o.mutations) if mu[1] in sh]
            if not ks:
                continue
            k = rng.choice(ks)
            s, u, d, p, t, md = o.mutations[k]
            if kind == "mutation-derived":
                o.mutations[k] = (s, u, d + "X", p, t, md)
            elif kind == "mutation-metadata":
                o.mutations[k] = (s, u, d, p, t, flip(rng, md))
            elif kind == "site-ancestral":
                pos, a, smd = o.sites[s]
                o.sites[s] = (pos, a + "Q", smd)
            else:
                pos, a, smd = o.sites[s]
                o.sites[s] = (pos, a, flip(rng, smd))
            return kind, o
        if kind.startswith("individual"):
            inds = sorted({o.nodes[u][3] for u in sh if o.nodes[u][3] != NULL})
            if not inds:
                continue
            i = rng.choice(inds)
            fl, loc, par, md = o.individuals[i]
            if kind == "individual-flags":
                fl ^= 1 << rng.choice([0, 3, 17])
            elif kind == "individual-metadata":
                md = flip(rng, md)
            else:
                loc = loc + (1.5,)
            o.individuals[i] = (fl, loc, par, md)
            return kind, o
        if kind == "population-metadata":
            ps = sorted({o.nodes[u][2] for u in sh if o.nodes[u][2] != NULL})
            if not ps:
                continue
            p = rng.choice(ps)
            o.populations[p] = (flip(rng, o.populations[p][0]),)
            return kind, o
    return None


def flip(rng, b):
    """One metadata byte changed (or one appended to an empty value)."""
    if not b:
        return bytes([rng.choice([1, 66, 255])])
    j = rng.randrange(len(b))
    return b[:j] + bytes([b[j] ^ (1 << rng.randrange(8))]) + b[j + 1:]


def call_union(variant, stc, otc, mapping, kw, as_array=False):
    """Returns (result tables or None, error or None)."""
    if as_array and mapping:
        import numpy as np
        mapping = np.array(mapping, dtype=np.int64 if as_array == 2 else np.int32)
    try:
        if variant == "ts":
            sts = stc.tree_sequence()
            ots = otc.tree_sequence()
            return sts.union(ots, mapping, **kw).dump_tables(), None
        stc.union(otc, mapping, **kw)
        return stc, None
    except LIBERR as e:
        return None, e


def run_union(case, ctx):
    rng = case_rng(case)
    m = base_model(rng, big=rng.random() < 0.15, tier=case["tier"])
    S, X, Y = split_for_union(rng, m)
    add_pops = rng.random() < 0.5
    check_shared = rng.random() < 0.6
    record = rng.random() < 0.5
    variant = rng.choice(["tables", "ts"])
    self_list = S + X
    other_list = S + Y
    rng.shuffle(self_list)
    rng.shuffle(other_list)
    # With add_populations=False population ids of other are used verbatim in self: both sides keep the whole
    # population table so that the ids mean the same thing.
    reorder = add_pops and rng.random() < 0.7
    sm = ref_sort(ref_subset(m, self_list, reorder_populations=reorder, remove_unreferenced=reorder))
    om = ref_sort(ref_subset(m, other_list, reorder_populations=reorder, remove_unreferenced=reorder))
    pos_in_self = {u: k for k, u in enumerate(self_list)}
    Sset = set(S)
    mapping = [pos_in_self[u] if u in Sset else NULL for u in other_list]
    shared_other_ids = [k for k, u in enumerate(other_list) if u in Sset]
    perturbed = None
    if rng.random() < 0.35:
        pr = perturb_shared(rng, om, shared_other_ids)
        if pr is not None:
            perturbed, om = pr
    ctx.feature(f"union:{variant}")
    ctx.feature(f"union:add_populations={int(add_pops)},check={int(check_shared)}")
    ctx.feature(f"union:shared={'0' if not S else 'some'},new={'0' if not Y else 'some'},own={'0' if not X else 'some'}")
    if perturbed:
        ctx.feature(f"union:perturbed:{perturbed}")
    for t in m.tags:
        ctx.feature(t)
    _sig(ctx, case, ("union", m.signature(), tuple(self_list), tuple(other_list), add_pops, check_shared, variant,
             perturbed), nontrivial=bool(Y) and (len(om.edges) > 0 or len(om.mutations) > 0))
    detail = {"self": sm.to_json(), "other": om.to_json(), "node_mapping": mapping,
              "add_populations": add_pops, "check_shared_equality": check_shared, "variant": variant,
              "perturbed": perturbed}
    if case["k"] < 20:
        ctx.sample({"case": case, **detail})
    kw = dict(check_shared_equality=check_shared, add_populations=add_pops, record_provenance=record)
    if rng.random() < 0.5:
        kw = {k: v for k, v in kw.items() if not v}   # all three default to True
        ctx.feature("union:defaults-omitted")
    stc, otc = to_tables(sm, with_index=rng.random() < 0.5), to_tables(om, with_index=rng.random() < 0.5)
    if variant == "ts":
        # an edge-interval / removed-edge perturbation keeps `other` a valid tree sequence (sub-structure)
        otc.tree_sequence()  # a failure here is an error of the reference subset, not a verdict
        stc.tree_sequence()
    other_before = from_tables(otc).signature()
    res, err = call_union(variant, stc, otc, mapping, kw, as_array=rng.choice([0, 0, 1, 2]))
    if from_tables(otc).signature() != other_before:
        ctx.violation("union/other-modified", "union modified `other`", detail)
    if perturbed and check_shared:
        ctx.count("union:refusal")
        if err is None:
            ctx.violation("union/differing-shared-part-accepted",
                          f"other's shared portion differs ({perturbed}) but union(check_shared_equality=True) "
                          f"returned", detail)
        return
    exp, either = ref_union(sm, om, mapping, add_populations=add_pops)
    if either:
        ctx.count("union:either-zone-parent-order")  # E4
        return
    if err is not None:
        ctx.violation("union/raised", f"union(mapping={mapping}, {kw}) raised {err}", detail)
        return
    got, bad = read_back(res)
    ctx.count("union:ref")
    if bad:
        ctx.violation("union/broken-offsets", f"ragged columns broken {bad}", detail)
        return
    ctx.count("union:index-consistent")
    msg = stale_index(res)
    if msg:
        ctx.violation("union/stale-index", f"union(node_mapping={mapping}, {kw}) [{variant}]: {msg}", detail)
    cands = [exp, ref_union(sm, om, mapping, add_populations=add_pops, parent_mode="drop")[0]]
    d = best_match(got, cands)
    for name, msg in d[:3]:
        ctx.violation(f"union/{name}", f"union(node_mapping={mapping}, add_populations={add_pops}, "
                                       f"check_shared_equality={check_shared}) [{variant}] {name}: {msg}", detail)
    extra = {"node_mapping": mapping}
    check_provenance(ctx, "union", sm.provenances, got.provenances, record, "union", extra)
    if not d:
        ctx.count("union:loads")
        try:
            res.tree_sequence()
        except LIBERR as e:
            ctx.violation("union/result-does-not-load", f"union result rejected: {e}", detail)


# --------------------------------------------------------------------------- split / rejoin law


def law_precondition(m, A, B, C):
    """Reasons why the split/rejoin law does NOT apply to the cover (A shared, B, C); [] if it applies."""
    A, B, C = set(A), set(B), set(C)
    why = []
    if (A | B | C) != set(range(len(m.nodes))) or (A & B) or (A & C) or (B & C):
        why.append("not a cover")
    for l, r, p, c, md in m.edges:
        if (p in B and c in C) or (p in C and c in B):
            why.append("edge joins B and C")
            break
    ref_by = {}
    for u, nd in enumerate(m.nodes):
        if nd[3] != NULL:
            ref_by.setdefault(nd[3], set()).add("A" if u in A else ("B" if u in B else "C"))
    for i, parts in ref_by.items():
        if "B" in parts and "C" in parts and "A" not in parts:
            # (an individual that also has a shared node is recognised through it and not duplicated)
            why.append("individual referenced from B and C only")
            break
    # an individual row must be the same wherever it is visible: its referenced parents must be visible there
    for i, parts in ref_by.items():
        in_self = bool(parts & {"A", "B"})
        in_other = bool(parts & {"A", "C"})
        for p in m.individuals[i][2]:
            if p == NULL or p not in ref_by:
                continue  # unreferenced parents disappear everywhere, also in the canonical original
            pp = ref_by[p]
            if (in_self and not (pp & {"A", "B"})) or (in_other and not (pp & {"A", "C"})):
                why.append("individual parent link crosses the parts")
                break
    pop_by = {}
    for u, nd in enumerate(m.nodes):
        if nd[2] != NULL:
            pop_by.setdefault(nd[2], set()).add("A" if u in A else ("B" if u in B else "C"))
    for p, parts in pop_by.items():
        if "C" in parts and len(parts) > 1:
            # union(add_populations=True) gives the new nodes new populations
            why.append("population of a C node referenced elsewhere")
            break
    if m.migrations:
        why.append("migrations")
    return why


def make_independent(rng, m):
    """Choose a time cut and a cover (A, B, C) and *edit individual/population references of the model* so
    that the precondition of the law holds.  The topology decides B/C: connected components of the
    below-cut nodes under 'joined by an edge'."""
    n = len(m.nodes)
    times = sorted({nd[1] for nd in m.nodes})
    cut = rng.choice(times + [times[0] - 1])
    A = [u for u in range(n) if m.nodes[u][1] > cut]
    R = [u for u in range(n) if m.nodes[u][1] <= cut]
    comp = {u: u for u in R}

    def find(u):
        while comp[u] != u:
            comp[u] = comp[comp[u]]
            u = comp[u]
        return u

    Rset = set(R)
    for l, r, p, c, md in m.edges:
        if p in Rset and c in Rset:
            comp[find(p)] = find(c)
    roots = sorted({find(u) for u in R})
    side = {r_: rng.choice("BC") for r_ in roots}
    B = [u for u in R if side[find(u)] == "B"]
    C = [u for u in R if side[find(u)] == "C"]
    Aset, Bset, Cset = set(A), set(B), set(C)
    # individuals: types a (referenced by >= 1 A node), b (B only), c (C only), u (unreferenced)
    nind = len(m.individuals)
    npop = len(m.populations)
    ityp = [rng.choice("abcu") for _ in range(nind)]
    ptyp = [rng.choice("xxc") for _ in range(npop)]   # x: A/B nodes only; c: C nodes only
    by_t = lambda typ, ch: [i for i, t in enumerate(typ) if t in ch]  # noqa: E731
    nodes = []
    for u, (fl, t, p, i, md) in enumerate(m.nodes):
        part = "A" if u in Aset else ("B" if u in Bset else "C")
        icand = by_t(ityp, "a" if part == "A" else ("ab" if part == "B" else "ac"))
        pcand = by_t(ptyp, "c" if part == "C" else "x")
        i = rng.choice(icand) if icand and rng.random() < 0.6 else NULL
        p = rng.choice(pcand) if pcand and rng.random() < 0.7 else NULL
        nodes.append((fl, t, p, i, md))
    m.nodes = nodes
    # type-a individuals never referenced from A degrade: make them unreferenced-from-both by re-typing
    refA = {nd[3] for u, nd in enumerate(m.nodes) if u in Aset and nd[3] != NULL}
    for i in range(nind):
        if ityp[i] == "a" and i not in refA:
            parts = {("B" if u in Bset else "C") for u, nd in enumerate(m.nodes) if nd[3] == i}
            if len(parts) == 2:
                # referenced from B and C but not from A: detach the C references
                m.nodes = [(fl, t, p, NULL if (ii == i and u in Cset) else ii, md)
                           for u, (fl, t, p, ii, md) in enumerate(m.nodes)]
                ityp[i] = "b"
            elif parts == {"B"}:
                ityp[i] = "b"
            elif parts == {"C"}:
                ityp[i] = "c"
            else:
                ityp[i] = "u"
    referenced = {nd[3] for nd in m.nodes if nd[3] != NULL}
    inds = []
    for i, (fl, loc, par, md) in enumerate(m.individuals):
        if i not in referenced:
            ok = list(range(nind))
        else:
            allowed = {"a": "a", "b": "ab", "c": "ac"}[ityp[i]]
            ok = [j for j in range(nind) if (j in referenced and ityp[j] in allowed) or j not in referenced]
        ok = [j for j in ok if j != i]
        newpar = tuple(rng.choice(ok + [NULL]) if ok else NULL for _ in par)
        inds.append((fl, loc, newpar, md))
    m.individuals = inds
    return cut, A, B, C


def has_individual_cycle(m):
    n = len(m.individuals)
    state = [0] * n

    def visit(i):
        if state[i] == 1:
            return True
        if state[i] == 2:
            return False
        state[i] = 1
        for p in m.individuals[i][2]:
            if p != NULL and visit(p):
                return True
        state[i] = 2
        return False

    return any(visit(i) for i in range(n))


def run_law(case, ctx):
    rng = case_rng(case)
    m = base_model(rng, big=rng.random() < 0.25, tier=case["tier"])
    if not m.individuals and not m.populations and rng.random() < 0.5:
        gen.decorate_pops_inds(rng, m, npop=rng.randint(1, 4), nind=rng.randint(1, 5))
    cut, A, B, C = make_independent(rng, m)
    if has_individual_cycle(m):
        # canonicalise (inside the shared-equality check and at the end) needs acyclic individual parents
        m.individuals = [(fl, loc, tuple(p for p in par if p == NULL or p < i), md)
                         for i, (fl, loc, par, md) in enumerate(m.individuals)]
    why = law_precondition(m, A, B, C)
    ctx.count("law:precondition-evaluated")
    if why:
        ctx.count("law:precondition-failed(skipped)")
        ctx.feature("law:skip:" + why[0])
        _sig(ctx, case, None, nontrivial=False)
        return
    variant = rng.choice(["tables", "ts"])
    self_list = A + B
    other_list = A + C
    rng.shuffle(self_list)
    rng.shuffle(other_list)
    Aset = set(A)
    pos_in_self = {u: k for k, u in enumerate(self_list)}
    mapping = [pos_in_self[u] if u in Aset else NULL for u in other_list]
    order = self_list + [u for u in other_list if u not in Aset]
    ctx.feature(f"law:{variant}")
    ctx.feature(f"law:A={'0' if not A else 'n'},B={'0' if not B else 'n'},C={'0' if not C else 'n'}")
    if any(nd[3] != NULL for nd in m.nodes):
        ctx.feature("law:individuals")
    if any(nd[2] != NULL for nd in m.nodes):
        ctx.feature("law:populations")
    for t in m.tags:
        ctx.feature(t)
    _sig(ctx, case, ("law", m.signature(), tuple(self_list), tuple(other_list), variant),
            nontrivial=bool(B) and bool(C) and len(m.edges) > 0)
    detail = {"model": m.to_json(), "cut": cut, "A": A, "B": B, "C": C, "self_nodes": self_list,
              "other_nodes": other_list, "node_mapping": mapping, "variant": variant}
    if case["k"] < 30:
        ctx.sample({"case": case, **detail})
    check_shared = rng.random() < 0.8
    try:
        if variant == "ts":
            ts = to_tables(m).tree_sequence()
            t1 = ts.subset(self_list)
            t2 = ts.subset(other_list)
            res = t1.union(t2, mapping, check_shared_equality=check_shared, add_populations=True).dump_tables()
        else:
            res = to_tables(m)
            oth = to_tables(m)
            res.subset(self_list)
            oth.subset(other_list)
            res.union(oth, mapping, check_shared_equality=check_shared, add_populations=True)
    except LIBERR as e:
        ctx.count("law:rejoin")
        ctx.violation("law/raised", f"split/rejoin of independent parts raised {e}", detail)
        return
    ctx.count("law:rejoin")
    bad = bad_offsets(res)
    if bad:
        ctx.violation("law/broken-offsets", f"ragged columns broken {bad}", detail)
        return
    exp = to_tables(permute_nodes(m, order))
    try:
        res.canonicalise()
        exp.canonicalise()
    except LIBERR as e:
        ctx.violation("law/canonicalise-raised", f"canonicalise raised {e}", detail)
        return
    gm, em = from_tables(res), from_tables(exp)
    d = diff_models(gm, em)
    for name, msg in d[:3]:
        ctx.violation(f"law/{name}", f"union(subset(A+B), subset(A+C)) canonicalised differs from the original "
                                     f"canonicalised in {name}: {msg}", detail)
    ctx.count("law:assert_equals")
    try:
        res.assert_equals(exp, ignore_provenance=True)
    except AssertionError as e:
        if not d:
            ctx.violation("law/assert_equals", f"assert_equals(ignore_provenance=True) fails: {str(e)[:300]}", detail)
    # independent of canonicalise(): the same rejoin against the Python reference canonical content
    ctx.count("law:content")
    base = ref_sort(ref_subset(permute_nodes(m, order), list(range(len(order)))))
    if _msorted(gm.edges) != _msorted(base.edges):
        ctx.violation("law/content-edges", "edge multiset of the rejoined collection differs from the original: "
                      + _first_diff(_msorted(gm.edges), _msorted(base.edges)), detail)
    if [nd[:2] + nd[4:] for nd in gm.nodes] != [nd[:2] + nd[4:] for nd in base.nodes]:
        ctx.violation("law/content-nodes", "node rows of the rejoined collection differ from the original", detail)
    strip = lambda mm: _msorted([(mm.sites[s][0], u, d_, t, md) for s, u, d_, p, t, md in mm.mutations])  # noqa: E731
    if strip(gm) != strip(base):
        ctx.violation("law/content-mutations", "mutations of the rejoined collection differ from the original: "
                      + _first_diff(strip(gm), strip(base)), detail)
