"""C14 — subset and union retain exactly the referenced data and invert each other.

Reference semantics (written from the TreeSequence.subset / TreeSequence.union docstrings):

  ref_subset   nodes = listed nodes in listed order; edges with both ends listed; mutations on listed
               nodes with their sites; individuals / populations per remove_unreferenced and
               reorder_populations; ids remapped; row data unchanged.
  ref_union    self + the NULL-mapped nodes of other and the edges, mutations, sites, individuals and
               populations that involve them; then sort, de-duplicate sites, mutation parents.

EITHER zones (documented here, accepted by the oracles):
  E1  order of retained individuals after subset: the docstring says "ordered by the earliest retained node",
      the implementation keeps the original relative order, the property fixes no order.  Three concrete
      layouts are accepted (original order / first-referencing-node order / referenced-in-original-order then
      unreferenced), each with consistently remapped ids.
  E2  a retained individual whose parent individual is not retained: the docs say nothing; the dangling
      reference may be dropped from the list or replaced by NULL.
  E3  node lists with duplicates: undocumented; only memory safety and "returns or raises a tskit error".
  E4  union when, after the documented sort, a mutation would precede a mutation on a strict ancestor at the
      same site (only possible with unknown / tied times): union may raise a LibraryError (mutation parent
      after child) or return; nothing else is asserted for such a case.
  E5  tables after a *failed* subset/union are not specified (the implementation clears them).
  E6  node / mapping arrays of a dtype other than the documented int32 (and the int64 / uint32 always demanded
      here): a TypeError is accepted, a result must be the right one.
  E7  union(other=self): "another table collection" in the docs; refused with an error or equal to the reference
      union of two equal collections.  Two nodes of other mapped to one node of self: memory safety only.
  E8  union(check_shared_equality=False) when the shared parts really differ in what a shared node REFERS to
      (its individual), or when the perturbed other is no valid tree sequence: memory safety only.
  E9  top-level metadata / reference sequence of other differing from self's are never generated (the docs do
      not say whether they belong to the "shared portion"); self and other always carry the same ones.

Audit (lib/props/AUDIT-C14.md): entry points and call forms, array forms, > 256 / > 65535 rows per table,
> 64 KiB ragged entries, schemas and top-level data, second call on the produced object, more refusal kinds,
bad node mappings, union(other=self), law with add_populations=False.  Helpers in lib/props/c14_ext.py.
"""
import json

import tskit

from lib import gen
from lib.harness import case_rng
from lib.model import NULL, forest, mutation_parents
from lib.props import c14_ext as ext
from lib.tsk import from_tables, to_tables

ID = "C14"

LIBERR = (tskit.LibraryError,)


def _sig(ctx, case, obj, nontrivial=True):
    """Case signature for the distinct-non-trivial count.  In the thorough tier only every 8th case is recorded
    (the worker rewrites the whole signature set every 50 cases; millions of entries would dominate the run), so
    the reported number is a lower bound there."""
    if case.get("tier") == "thorough" and case.get("idx", 0) % 8:
        return
    ctx.sig(obj, nontrivial=nontrivial)


# =========================================================================== reference semantics


def ref_sort(m, edge_start=0, skip_sites=False):
    """TableCollection.sort() as documented.  Edges from edge_start on by (time[parent], parent, child,
    left); sites by position (stable); mutations by site, then decreasing time when known, ties and unknown
    times keep their relative order; migrations by (time, source, dest, left, node).  mutation.site and
    mutation.parent follow the permutation.  Nodes, individuals, populations, provenances untouched.
    Python's sort is stable; for rows with equal keys the documentation promises nothing for edges and
    migrations, so callers compare those two tables as multisets + key order."""
    out = m.copy()
    head = list(m.edges[:edge_start])
    tail = sorted(m.edges[edge_start:], key=lambda e: (m.nodes[e[2]][1], e[2], e[3], e[0]))
    out.edges = head + tail
    out.migrations = sorted(m.migrations, key=lambda g: (g[5], g[3], g[4], g[0], g[2]))
    if not skip_sites:
        sorder = sorted(range(len(m.sites)), key=lambda j: (m.sites[j][0], j))
        smap = {old: new for new, old in enumerate(sorder)}
        out.sites = [m.sites[j] for j in sorder]

        def mkey(k):
            mu = m.mutations[k]
            return (smap[mu[0]], -mu[4] if mu[4] is not None else 0.0, k)

        morder = sorted(range(len(m.mutations)), key=mkey)
        mmap = {old: new for new, old in enumerate(morder)}
        out.mutations = []
        for k in morder:
            s, u, d, p, t, md = m.mutations[k]
            out.mutations.append((smap[s], u, d, mmap[p] if p != NULL else NULL, t, md))
    return out


def ref_dedup_sites(m):
    """deduplicate_sites(): requires sites sorted by position; keeps the first row of each position and
    renumbers mutation.site; mutation rows otherwise untouched (incl. their order)."""
    out = m.copy()
    keep = []
    smap = {}
    for j, s in enumerate(m.sites):
        if keep and m.sites[keep[-1]][0] == s[0]:
            smap[j] = len(keep) - 1
        else:
            keep.append(j)
            smap[j] = len(keep) - 1
    out.sites = [m.sites[j] for j in keep]
    out.mutations = [(smap[s], u, d, p, t, md) for s, u, d, p, t, md in m.mutations]
    return out


IND_LAYOUTS = ("original", "first-node", "referenced-first")
PARENT_MODES = ("drop", "null")


def ref_subset(m, nodes, reorder_populations=True, remove_unreferenced=True, ind_layout="original",
               parent_mode="drop"):
    """Low-level subset (no sort).  `nodes` must not contain duplicates."""
    out = m.copy()
    node_map = {old: new for new, old in enumerate(nodes)}
    # individuals
    referenced = []
    refset = set()
    for u in nodes:
        i = m.nodes[u][3]
        if i != NULL and i not in refset:
            refset.add(i)
            referenced.append(i)
    n_ind = len(m.individuals)
    others = [i for i in range(n_ind) if i not in refset]
    if remove_unreferenced:
        kept = list(referenced) if ind_layout == "first-node" else sorted(referenced)
    else:
        if ind_layout == "original":
            kept = list(range(n_ind))
        elif ind_layout == "first-node":
            kept = list(referenced) + others
        else:
            kept = sorted(referenced) + others
    ind_map = {old: new for new, old in enumerate(kept)}
    inds = []
    for i in kept:
        fl, loc, par, md = m.individuals[i]
        newpar = []
        for p in par:
            if p == NULL:
                newpar.append(NULL)
            elif p in ind_map:
                newpar.append(ind_map[p])
            elif parent_mode == "null":
                newpar.append(NULL)
        inds.append((fl, loc, tuple(newpar), md))
    out.individuals = inds
    # populations
    n_pop = len(m.populations)
    if not reorder_populations:
        pops = list(range(n_pop))
    else:
        pops = []
        pset = set()
        for u in nodes:
            p = m.nodes[u][2]
            if p != NULL and p not in pset:
                pset.add(p)
                pops.append(p)
        if not remove_unreferenced:
            pops = pops + [p for p in range(n_pop) if p not in pset]
    pop_map = {old: new for new, old in enumerate(pops)}
    out.populations = [m.populations[p] for p in pops]
    # nodes
    out.nodes = []
    for u in nodes:
        fl, t, p, i, md = m.nodes[u]
        out.nodes.append((fl, t, pop_map[p] if p != NULL else NULL, ind_map[i] if i != NULL else NULL, md))
    # edges
    out.edges = [(l, r, node_map[p], node_map[c], md) for l, r, p, c, md in m.edges
                 if p in node_map and c in node_map]
    # mutations and sites
    keptm = [k for k, mu in enumerate(m.mutations) if mu[1] in node_map]
    mmap = {old: new for new, old in enumerate(keptm)}
    used_sites = {m.mutations[k][0] for k in keptm}
    if remove_unreferenced:
        kepts = [j for j in range(len(m.sites)) if j in used_sites]
    else:
        kepts = list(range(len(m.sites)))
    smap = {old: new for new, old in enumerate(kepts)}
    out.sites = [m.sites[j] for j in kepts]
    out.mutations = []
    for k in keptm:
        s, u, d, p, t, md = m.mutations[k]
        out.mutations.append((smap[s], node_map[u], d, mmap.get(p, NULL) if p != NULL else NULL, t, md))
    out.migrations = []
    return out


def compare_individuals(got, src, node_list, remove_unreferenced):
    """Individuals 'as a set with consistent id remapping' (E1, E2).  got: model read back; src: input model;
    node_list[k] = source id of result node k.  Returns a list of messages (empty = consistent)."""
    if len(got.nodes) != len(node_list):
        return []  # reported by the node comparison
    imap, rev = {}, {}
    for k, u in enumerate(node_list):
        oi, gi = src.nodes[u][3], got.nodes[k][3]
        if (oi == NULL) != (gi == NULL):
            return [f"node {k} (source {u}): individual {gi}, source individual {oi}"]
        if oi == NULL:
            continue
        if not (0 <= gi < len(got.individuals)):
            return [f"node {k}: individual id {gi} out of range"]
        if imap.setdefault(oi, gi) != gi or rev.setdefault(gi, oi) != oi:
            return [f"node {k} (source {u}): individual {gi} inconsistent with earlier nodes (source "
                    f"individual {oi}; map so far {imap})"]
    referenced = set(imap)
    want = len(referenced) if remove_unreferenced else len(src.individuals)
    if len(got.individuals) != want:
        return [f"{len(got.individuals)} individuals, expected {want} (referenced: {sorted(referenced)})"]
    todo = sorted(referenced)
    done = set()
    while todo:
        oi = todo.pop()
        if oi in done:
            continue
        done.add(oi)
        fl, loc, par, md = src.individuals[oi]
        gfl, gloc, gpar, gmd = got.individuals[imap[oi]]
        if (fl, loc, md) != (gfl, gloc, gmd):
            return [f"individual {imap[oi]} = {got.individuals[imap[oi]]}, source row {oi} = {src.individuals[oi]}"]
        if remove_unreferenced:
            strict = tuple(NULL if p == NULL else imap[p] for p in par if p == NULL or p in imap)
            nulled = tuple(NULL if (p == NULL or p not in imap) else imap[p] for p in par)
            if gpar != strict and gpar != nulled:
                return [f"individual {imap[oi]} parents {gpar}, source row {oi} parents {par} under map {imap}"]
        else:
            if len(gpar) != len(par):
                return [f"individual {imap[oi]} parents {gpar}, source row {oi} parents {par}"]
            for p, gp in zip(par, gpar):
                if p == NULL or gp == NULL:
                    if p != gp:
                        return [f"individual {imap[oi]} parents {gpar}, source parents {par} under map {imap}"]
                    continue
                if not (0 <= gp < len(got.individuals)):
                    return [f"individual {imap[oi]}: parent id {gp} out of range"]
                if imap.setdefault(p, gp) != gp or rev.setdefault(gp, p) != p:
                    return [f"individual {imap[oi]} parents {gpar}, source parents {par}: inconsistent with {imap}"]
                if p not in done:
                    todo.append(p)
    if not remove_unreferenced:
        rest_src = _msorted([src.individuals[i][:2] + (len(src.individuals[i][2]), src.individuals[i][3])
                             for i in range(len(src.individuals)) if i not in imap])
        rest_got = _msorted([got.individuals[i][:2] + (len(got.individuals[i][2]), got.individuals[i][3])
                             for i in range(len(got.individuals)) if i not in rev])
        if rest_src != rest_got:
            return ["unreferenced individuals differ: " + _first_diff(rest_got, rest_src)]
    return []


def mask_individuals(m):
    """Copy with the individual table and node.individual blanked (compared separately)."""
    o = m.copy()
    o.nodes = [(fl, t, p, NULL, md) for fl, t, p, i, md in m.nodes]
    o.individuals = []
    return o


def diff_subset(got, src, node_list, exp, remove_unreferenced):
    d = diff_models(mask_individuals(got), mask_individuals(exp))
    d += [("individuals", x) for x in compare_individuals(got, src, node_list, remove_unreferenced)]
    return d


def permute_nodes(m, order):
    """Pure relabelling: new node k is old node order[k]; every node reference is remapped; nothing else
    moves."""
    out = m.copy()
    nm = {old: new for new, old in enumerate(order)}
    assert len(nm) == len(m.nodes) == len(order)
    out.nodes = [m.nodes[u] for u in order]
    out.edges = [(l, r, nm[p], nm[c], md) for l, r, p, c, md in m.edges]
    out.mutations = [(s, nm[u], d, p, t, md) for s, u, d, p, t, md in m.mutations]
    out.migrations = [(l, r, nm[u], a, b, t, md) for l, r, u, a, b, t, md in m.migrations]
    return out


def strict_ancestor_later(m):
    """E4 detector: is there a site with mutation rows a < b where node(b) is a strict ancestor of node(a)
    at that position?  Then the row order does not put parents first and no order-based rule applies."""
    for j, s in enumerate(m.sites):
        ks = m.site_mutations(j)
        if len(ks) < 2:
            continue
        fr = forest(m, s[0])
        for ia, a in enumerate(ks):
            anc = set(fr.path_up(m.mutations[a][1])[1:])
            for b in ks[ia + 1:]:
                if m.mutations[b][1] in anc:
                    return True
    return False


def ref_union(sm, om, mapping, add_populations=True, parent_mode="null"):
    """self + non-shared part of other (documented steps 1-4 + populations), then the documented
    sort / deduplicate / mutation-parent computation.  Returns (model, either_zone)."""
    out = sm.copy()
    n_other = len(om.nodes)
    assert len(mapping) == n_other
    new_nodes = [k for k in range(n_other) if mapping[k] == NULL]
    node_map = {k: mapping[k] for k in range(n_other) if mapping[k] != NULL}
    # individuals linked to a shared node are the same individual as in self
    ind_map = {}
    for k in range(n_other):
        if mapping[k] != NULL and om.nodes[k][3] != NULL:
            ind_map[om.nodes[k][3]] = sm.nodes[mapping[k]][3]
    pop_map = {}
    first_new_ind = len(out.individuals)
    for k in new_nodes:
        fl, t, p, i, md = om.nodes[k]
        ni = NULL
        if i != NULL:
            if i not in ind_map:
                out.individuals.append(om.individuals[i])  # parents remapped below
                ind_map[i] = len(out.individuals) - 1
            ni = ind_map[i]
        np_ = NULL
        if p != NULL:
            if add_populations:
                if p not in pop_map:
                    out.populations.append(om.populations[p])
                    pop_map[p] = len(out.populations) - 1
                np_ = pop_map[p]
            else:
                np_ = p
        out.nodes.append((fl, t, np_, ni, md))
        node_map[k] = len(out.nodes) - 1
    for x in range(first_new_ind, len(out.individuals)):
        fl, loc, par, md = out.individuals[x]
        newpar = []
        for p in par:
            if p == NULL:
                newpar.append(NULL)
            elif ind_map.get(p, NULL) != NULL:
                newpar.append(ind_map[p])
            elif parent_mode == "null":
                newpar.append(NULL)
        out.individuals[x] = (fl, loc, tuple(newpar), md)
    newset = set(new_nodes)
    for l, r, p, c, md in om.edges:
        if p in newset or c in newset:
            out.edges.append((l, r, node_map[p], node_map[c], md))
    pos_to_site = {}
    for j, s in enumerate(out.sites):
        pos_to_site.setdefault(s[0], j)
    site_map = {}
    for k, (s, u, d, p, t, md) in enumerate(om.mutations):
        if u in newset:
            if s not in site_map:
                pos = om.sites[s][0]
                if pos not in pos_to_site:
                    out.sites.append(om.sites[s])
                    pos_to_site[pos] = len(out.sites) - 1
                site_map[s] = pos_to_site[pos]
            out.mutations.append((site_map[s], node_map[u], d, NULL, t, md))
    # parents are recomputed for every mutation
    out.mutations = [(s, u, d, NULL, t, md) for s, u, d, p, t, md in out.mutations]
    out.migrations = []
    out = ref_sort(out)
    either = strict_ancestor_later(out)
    par = mutation_parents(out)
    out.mutations = [(s, u, d, par[k], t, md) for k, (s, u, d, _, t, md) in enumerate(out.mutations)]
    return out, either


# =========================================================================== comparison helpers

RAGGED = {
    "nodes": [("metadata", "metadata_offset")],
    "edges": [("metadata", "metadata_offset")],
    "sites": [("ancestral_state", "ancestral_state_offset"), ("metadata", "metadata_offset")],
    "mutations": [("derived_state", "derived_state_offset"), ("metadata", "metadata_offset")],
    "individuals": [("location", "location_offset"), ("parents", "parents_offset"),
                    ("metadata", "metadata_offset")],
    "populations": [("metadata", "metadata_offset")],
    "migrations": [("metadata", "metadata_offset")],
    "provenances": [("timestamp", "timestamp_offset"), ("record", "record_offset")],
}


def bad_offsets(tc):
    """Structural validity of every ragged column: offsets start at 0, never decrease, one per row + 1.
    (The end is compared with the data length only through the offsets themselves: reading a data column
    whose offsets are broken can raise SystemError.)  Returns [(table, column, offsets list)]."""
    bad = []
    for name, cols in RAGGED.items():
        t = getattr(tc, name)
        for data, off in cols:
            o = [int(x) for x in getattr(t, off)]
            ok = len(o) == t.num_rows + 1 and o[0] == 0 and all(o[i] <= o[i + 1] for i in range(len(o) - 1))
            if ok:
                try:
                    ok = len(getattr(t, data)) == o[-1]
                except SystemError:
                    ok = False
            if not ok:
                bad.append((name, off, o))
    return bad


def stale_index(tc):
    """An index that is present must be the index of the current rows.  None if absent or right, else a
    message.  (Only decidable when the rows can be indexed at all.)"""
    if not tc.has_index():
        return None
    fresh = tc.copy()
    try:
        fresh.drop_index()
        fresh.build_index()
    except LIBERR:
        return None
    a, b = tc.indexes, fresh.indexes
    ai, ar = [int(x) for x in a.edge_insertion_order], [int(x) for x in a.edge_removal_order]
    bi, br = [int(x) for x in b.edge_insertion_order], [int(x) for x in b.edge_removal_order]
    if (ai, ar) != (bi, br):
        return f"index present after the call (insertion {ai}, removal {ar}) is not the index of the rows ({bi}, {br})"
    return None


def edge_key(m):
    return lambda e: (m.nodes[e[2]][1], e[2], e[3], e[0])


def mig_key(g):
    return (g[5], g[3], g[4], g[0], g[2])


def _msorted(rows):
    return sorted(rows, key=repr)


def diff_models(got, exp, tables=("nodes", "edges", "sites", "mutations", "individuals", "populations",
                                  "migrations"), edge_start=0):
    """First difference per table between a model read back from tskit and an expected model.
    Edges (from edge_start) and migrations: multiset equality + documented key order; others exact."""
    out = []
    if got.L != exp.L:
        out.append(("sequence_length", f"{got.L} expected {exp.L}"))
    for name in tables:
        g, e = getattr(got, name), getattr(exp, name)
        if name == "edges":
            if g[:edge_start] != e[:edge_start]:
                out.append((name, f"rows before edge_start={edge_start} changed: {g[:edge_start]} expected "
                                  f"{e[:edge_start]}"))
            gt, et = g[edge_start:], e[edge_start:]
            if _msorted(gt) != _msorted(et):
                out.append((name, "row multiset differs: " + _first_diff(_msorted(gt), _msorted(et))))
            else:
                ks = [edge_key(got)(x) for x in gt]
                if any(ks[i] > ks[i + 1] for i in range(len(ks) - 1)):
                    out.append((name, f"not in (time[parent], parent, child, left) order: {gt}"))
        elif name == "migrations":
            if _msorted(g) != _msorted(e):
                out.append((name, "row multiset differs: " + _first_diff(_msorted(g), _msorted(e))))
            else:
                ks = [mig_key(x) for x in g]
                if any(ks[i] > ks[i + 1] for i in range(len(ks) - 1)):
                    out.append((name, f"not in (time, source, dest, left, node) order: {g}"))
        elif g != e:
            out.append((name, _first_diff(g, e)))
    return out


def _first_diff(g, e):
    if len(g) != len(e):
        extra = f"{len(g)} rows, expected {len(e)}; "
    else:
        extra = ""
    for j in range(min(len(g), len(e))):
        if g[j] != e[j]:
            return f"{extra}row {j}: got {g[j]} expected {e[j]}"
    if len(g) > len(e):
        return f"{extra}unexpected row {len(e)}: {g[len(e)]}"
    if len(e) > len(g):
        return f"{extra}missing row {len(g)}: {e[len(g)]}"
    return extra + "equal"


def best_match(got, candidates, **kw):
    """Compare with every accepted layout; returns [] if one matches, else the diff against the closest."""
    best = None
    for c in candidates:
        d = diff_models(got, c, **kw)
        if not d:
            return []
        if best is None or len(d) < len(best):
            best = d
    return best


def read_back(tc):
    """(model, None) or (None, bad) if a ragged column is structurally broken."""
    bad = bad_offsets(tc)
    if bad:
        return None, bad
    return from_tables(tc), None


# =========================================================================== workload
#
# Families (k % 10): subset 5, union 3, law 2.  Inside each family a FIXED share of the cases (decided by the
# case index, not by chance) goes to the structurally extreme / alternative-entry-point modes, so that a loaded
# machine that only gets through a few thousand cases still sees every mode:
#   big    every table > 256 rows, > 256 children, one individual on > 256 nodes      (lib/props/c14_ext.py)
#   wide   single ragged entries > 64 KiB, one individual with > 256 parents
#   huge   every table > 65535 rows (numpy reference)
#   chain  a second subset / union on the SAME object that the first call produced
#   ll     the low-level _tskit.TableCollection entry points (no sort, no provenance)
#   alias  union(other=self)      badmap  node_mapping that is not a mapping into self


def _subset_mode(j):
    if j % 120 == 7:
        return "big"
    if j % 40 == 23:
        return "wide"
    if j % 900 == 11:
        return "huge"
    if j % 10 == 3:
        return "chain"
    if j % 8 == 1:
        return "ll"
    return "std"


def _union_mode(j):
    if j % 150 == 4:
        return "big"
    if j % 40 == 13:
        return "wide"
    if j % 60 == 9:
        return "alias"
    if j % 20 == 6:
        return "badmap"
    if j % 10 == 2:
        return "chain"
    if j % 8 == 5:
        return "ll"
    return "std"


def _law_mode(j):
    if j % 100 == 3:
        return "big"
    if j % 800 == 17:
        return "huge"
    if j % 6 == 1:
        return "ll"
    return "std"


def cases(tier, seed):
    n = 60000 if tier == "quick" else 3000000
    for k in range(n):
        r, q = k % 10, k // 10
        if r < 5:
            c, mode = {"gen": "subset", "k": k}, _subset_mode(q * 5 + r)
        elif r < 8:
            c, mode = {"gen": "union", "k": k}, _union_mode(q * 3 + r - 5)
        else:
            c, mode = {"gen": "law", "k": k}, _law_mode(q * 2 + r - 8)
        if mode != "std":
            c["mode"] = mode
        yield c


def msprime_model(rng, migrations=False, mutations=True):
    """A small msprime simulation read back into a RowModel (arbitrary double coordinates/times; schemas and
    provenance stripped so that rows are plain bytes)."""
    import msprime

    from lib.tsk import from_tables as _ft
    seed = rng.randint(1, 2 ** 31 - 1)
    n = rng.randint(2, 5)
    L = rng.choice([5, 10, 20])
    discrete = rng.random() < 0.5
    if migrations:
        demog = msprime.Demography.island_model([10, 10], 0.2)
        ts = msprime.sim_ancestry(samples={0: n, 1: 1}, demography=demog, sequence_length=L,
                                  recombination_rate=rng.choice([0.02, 0.1]), random_seed=seed,
                                  record_migrations=True, discrete_genome=discrete, ploidy=rng.choice([1, 2]))
    else:
        model = rng.choice(["hudson", "dtwf"])
        ts = msprime.sim_ancestry(samples=n, sequence_length=L, recombination_rate=rng.choice([0, 0.05, 0.2]),
                                  random_seed=seed, population_size=10, discrete_genome=discrete,
                                  model=model, ploidy=2 if model == "dtwf" else rng.choice([1, 2]))
    if mutations:
        ts = msprime.sim_mutations(ts, rate=rng.choice([0.01, 0.05]), random_seed=seed, discrete_genome=discrete,
                                   model=rng.choice(["jc69", "binary"]))
    m = _ft(ts.dump_tables())
    m.schemas = {}
    m.metadata_schema = ""
    m.provenances = []
    m.tags = {"msprime"}
    if m.migrations:
        m.tags.add("migrations")
    if any(mu[4] is not None for mu in m.mutations):
        m.tags.add("mutation-times")
    return m


def base_model(rng, big=False, tier="quick"):
    if rng.random() < 0.05:
        m = msprime_model(rng)
        if rng.random() < 0.5:
            gen.decorate_meta(rng, m, tables=("nodes", "edges", "sites", "mutations", "individuals", "populations"))
        return m
    if tier == "thorough" and rng.random() < 0.2:
        big = True
    m = gen.gen_full(rng, max_nodes=14 if big else 8, max_bp=4, max_sites=5,
                     pops=rng.random() < 0.8, meta=rng.random() < 0.7, migrations=False)
    if rng.random() < 0.2:
        m.provenances = [("2020-01-01T00:00:00", json.dumps({"x": rng.randint(0, 9)}))]
    return m


def mode_model(rng, case, ctx, p_big):
    """The input model of a case: a structurally extreme one in the big / wide modes."""
    mode = case.get("mode", "std")
    if mode == "big":
        m = ext.big_model(rng)
        ctx.feature("big-instance(>256 rows per table)")
        return m
    m = base_model(rng, big=rng.random() < p_big, tier=case["tier"])
    if mode == "wide":
        for w in sorted(ext.widen(rng, m)):
            ctx.feature("wide:" + w)
    return m


def run_case(case, ctx):
    g = case["gen"]
    if g == "subset":
        run_subset(case, ctx)
    elif g == "union":
        run_union(case, ctx)
    elif g == "law":
        run_law(case, ctx)
    else:
        raise ValueError(g)


def _short(lst, n=60):
    lst = list(lst)
    return str(lst) if len(lst) <= n else f"{str(lst[:n])[:-1]}, ... {len(lst)} ids]"


def _detail(m, **kw):
    """Violation detail: the model as JSON unless it is enormous (wide / big instances stay replayable through
    the case descriptor; the message carries the differing row)."""
    d = dict(kw)
    j = m.to_json()
    if len(m.nodes) <= 64 and sum(len(str(r)) for t in ("nodes", "edges", "sites", "mutations", "individuals",
                                                           "populations") for r in getattr(m, t)) < 20000:
        d["model"] = j
    else:
        d["model"] = f"<{len(m.nodes)} nodes, {len(m.edges)} edges: replay the case>"
    return d


CALL_ERRORS = LIBERR + (ValueError, OverflowError, TypeError)


def check_top(ctx, key, before, res, what):
    """subset / union change table rows (and append provenance), nothing else: table metadata schemas, top-level
    metadata and its schema, time_units, the reference sequence and the sequence length stay."""
    ctx.count(key.split("/")[0].split("-")[0] + ":top-level-kept")
    dd = ext.snapshot_diff(before, ext.top_snapshot(res))
    if dd:
        ctx.violation(f"{key}/top-level", f"{what} changed data outside the table rows: {dd[:3]}")


# --------------------------------------------------------------------------- subset


def node_list(rng, m):
    n = len(m.nodes)
    kind = rng.choice(["random", "random", "random", "all", "all-perm", "reverse", "empty", "non-samples",
                       "samples", "single", "dups", "oob", "all-but-one", "stride"])
    ids = list(range(n))
    if kind == "random":
        lst = rng.sample(ids, rng.randint(0, n))
    elif kind == "all":
        lst = ids
    elif kind == "all-perm":
        lst = rng.sample(ids, n)
    elif kind == "reverse":
        lst = ids[::-1]
    elif kind == "empty":
        lst = []
    elif kind == "non-samples":
        lst = [u for u in ids if not m.is_sample(u)]
        rng.shuffle(lst)
    elif kind == "samples":
        lst = [u for u in ids if m.is_sample(u)]
        rng.shuffle(lst)
    elif kind == "single":
        lst = [rng.choice([0, n - 1, rng.randrange(n)])]
    elif kind == "all-but-one":
        lst = ids[:]
        del lst[rng.choice([0, n - 1, rng.randrange(n)])]
    elif kind == "stride":
        step = rng.choice([2, 3, -1, -2])
        lst = ids[::step] if step > 0 else ids[::-1][::-step]
    elif kind == "dups":
        lst = rng.sample(ids, rng.randint(1, n))
        lst.insert(rng.randint(0, len(lst)), rng.choice(lst))
    else:
        lst = rng.sample(ids, rng.randint(0, n))
        # (2 ** 32 + a valid id would pass as that id after a wrapping cast to int32)
        lst.insert(rng.randint(0, len(lst)), rng.choice([n, n, n + 5, -1, -2, 2 ** 31 - 1, -2 ** 31, 2 ** 31, 2 ** 32,
                                                         2 ** 32 + n - 1, -2 ** 32]))
    return kind, lst


def check_provenance(ctx, key, before, after, record, command, extra=None):
    ctx.count("provenance")
    if not record:
        if after != before:
            ctx.violation(f"{key}/provenance-added", f"record_provenance=False but provenances {before} -> {after}")
        return
    if len(after) != len(before) + 1 or after[:len(before)] != before:
        ctx.violation(f"{key}/provenance-missing", f"record_provenance=True: provenances {before} -> {after}")
        return
    try:
        rec = json.loads(after[-1][1])
        params = rec["parameters"]
        ok = params["command"] == command
        for k, v in (extra or {}).items():
            ok = ok and params.get(k) == v
    except Exception as e:  # noqa: BLE001
        ok = False
        params = repr(e)
    if not ok:
        ctx.violation(f"{key}/provenance-record", f"provenance record parameters {str(params)[:600]} expected command "
                                                   f"{command} {str(extra)[:600]}")


def do_subset(rng, variant, tc, arg, record, reorder, remove, src_ts=None):
    """One subset call through the chosen entry point.  Returns (form tag, result tables, result ts, source ts,
    error)."""
    tag = rng.choice(ext.SUBSET_FORMS[variant])
    res_ts = None
    try:
        if variant == "ts":
            if src_ts is None:
                src_ts = tc.tree_sequence()
            res_ts = ext.subset_call(rng, tag, "ts", src_ts, arg, record, reorder, remove)
            res = res_ts.dump_tables()
        elif variant == "ll":
            ext.subset_call(rng, tag, "ll", tc._ll_tables, arg, None, reorder, remove)
            res = tc
        else:
            ext.subset_call(rng, tag, "tables", tc, arg, record, reorder, remove)
            res = tc
        return tag, res, res_ts, src_ts, None
    except CALL_ERRORS as e:
        return tag, None, None, src_ts, e


def check_subset_result(ctx, key, res, src, lst, reorder, remove, variant, record, top_before, detail,
                        scrambled=False):
    """Compare the tables `res` produced by one subset call with the reference applied to the model `src`.
    Returns the model read back when everything agreed, else None."""
    what = (f"subset({_short(lst)}, reorder_populations={reorder}, remove_unreferenced={remove}) "
            f"[{variant}/{detail.get('call_form')}/{detail.get('nodes_form')}]")
    got, bad = read_back(res)
    ctx.count("subset:ref")
    if bad:
        ctx.violation(f"{key}/broken-offsets", f"{what}: ragged columns broken {bad}", detail)
        return None
    if variant == "ll":
        # tsk_table_collection_subset (C documentation): nodes in the listed order, populations in first-seen
        # order, retained individuals / edges / mutations / sites in their original order; no sorting
        ctx.count("subset:ll-exact-order")
        exp = ref_subset(src, lst, reorder, remove)
        d = ext.diff_exact(mask_individuals(got), mask_individuals(exp))
        d += [("individuals", x) for x in compare_individuals(got, src, lst, remove)]
    else:
        exp = ref_sort(ref_subset(src, lst, reorder, remove))
        d = diff_subset(got, src, lst, exp, remove)
    ctx.count("subset:index-consistent")
    msg = stale_index(res)
    if msg:
        ctx.violation(f"{key}/stale-index", f"{what}: {msg}", detail)
    for name, msg in d[:3]:
        ctx.violation(f"{key}/{name}", f"{what} {name}: {msg}", detail)
    if variant == "ll":
        check_provenance(ctx, key, src.provenances, got.provenances, False, "subset")
    else:
        check_provenance(ctx, key, src.provenances, got.provenances, record, "subset", {"nodes": list(lst)})
    check_top(ctx, key, top_before, res, what)
    if d:
        return None
    if variant == "ll" and not scrambled:
        # sorting the low-level result gives what the Python method documents
        ctx.count("subset:ll-then-sort")
        res.sort()
        g2 = from_tables(res)
        for name, msg in diff_subset(g2, src, lst, ref_sort(exp), remove)[:2]:
            ctx.violation(f"{key}/ll-sorted/{name}", f"{what} followed by sort(): {name}: {msg}", detail)
        got = g2
    if variant != "ts" and not scrambled:
        # the result of subsetting a valid tree sequence loads
        ctx.count("subset:loads")
        try:
            res.tree_sequence()
        except LIBERR as e:
            ctx.violation(f"{key}/result-does-not-load", f"{what} result rejected: {e}", detail)
    return got


def run_subset(case, ctx):
    rng = case_rng(case)
    mode = case.get("mode", "std")
    if mode == "huge":
        return run_subset_huge(case, ctx, rng)
    m = mode_model(rng, case, ctx, 0.15)
    kind, lst = node_list(rng, m)
    reorder = rng.random() < 0.5
    remove = rng.random() < 0.5
    record = rng.random() < 0.5
    variant = "ll" if mode == "ll" else rng.choice(["tables", "ts"])
    scrambled = False
    if variant != "ts" and kind not in ("dups", "oob") and rng.random() < 0.15:
        # TableCollection.subset needs referential integrity only: also feed unsorted rows
        from lib.props.c07 import scramble
        m = scramble(rng, m, nodes_fixed=True)
        scrambled = True
    ctx.feature(f"subset:{kind}")
    ctx.feature(f"subset:{variant}")
    ctx.feature(f"subset:mode:{mode}")
    ctx.feature(f"subset:reorder={int(reorder)},remove={int(remove)}")
    if scrambled:
        ctx.feature("subset:scrambled-input")
    for t in m.tags:
        ctx.feature(t)
    nontrivial = kind not in ("dups", "oob", "empty") and len(lst) > 0 and (len(m.edges) > 0 or len(m.mutations) > 0)
    _sig(ctx, case, ("subset", m.signature(), tuple(lst), reorder, remove, variant), nontrivial=nontrivial)
    if case["k"] < 20 and mode in ("std", "ll", "chain"):
        ctx.sample({"case": case, "nodes": lst, "reorder_populations": reorder, "remove_unreferenced": remove,
                    "variant": variant, "model": m.to_json()})
    tc = to_tables(m, with_index=(not scrambled and rng.random() < 0.5))
    decorated = rng.random() < 0.35
    if decorated:
        ext.decorate_top(tc, ext.top_params(rng))
        ctx.feature("subset:schemas/top-level-data-present")
    top_before = ext.top_snapshot(tc)
    nodes_form, arg = ext.id_array_form(rng, lst, lowlevel=(variant == "ll"))
    ctx.feature(f"subset:nodes-as:{nodes_form}")
    tag, res, res_ts, src_ts, err = do_subset(rng, variant, tc, arg, record, reorder, remove)
    ctx.feature(f"subset:call:{tag}")
    detail = _detail(m, nodes=lst, reorder_populations=reorder, remove_unreferenced=remove, variant=variant,
                     record_provenance=record, call_form=tag, nodes_form=nodes_form, decorated=decorated)
    if kind == "oob":
        ctx.count("subset:out-of-range-rejected")
        if err is None:
            ctx.violation("subset/out-of-range-node-accepted", f"subset({lst}) on {len(m.nodes)} nodes returned",
                          detail)
        return
    if kind == "dups":
        ctx.count("subset:duplicates(either)")  # E3
        return
    if isinstance(err, TypeError) and nodes_form not in ext.STRICT_FORMS:
        # only list / int32 arrays are documented; int64 / uint32 arrays have always been demanded here
        ctx.count("subset:exotic-node-array-refused(either)")
        return
    if err is not None:
        ctx.violation("subset/raised", f"subset({_short(lst)} as {nodes_form}, reorder_populations={reorder}, "
                                       f"remove_unreferenced={remove}) [{variant}/{tag}] raised "
                                       f"{type(err).__name__}: {err}", detail)
        return
    got = check_subset_result(ctx, "subset", res, m, lst, reorder, remove, variant, record, top_before, detail,
                              scrambled=scrambled)
    if variant == "ts":
        # the source tree sequence is immutable
        ctx.count("subset:source-unchanged")
        if from_tables(src_ts.dump_tables()).signature() != m.signature():
            ctx.violation("subset/source-modified", "TreeSequence.subset changed its source", detail)
    if got is None or mode != "chain":
        return
    # ---- the same object again (d): a second subset of the result; for a tree sequence also the first call again
    ctx.count("subset:chain")
    n1 = len(got.nodes)
    l2 = rng.sample(range(n1), rng.randint(0, n1)) if rng.random() < 0.7 else rng.sample(range(n1), n1)
    reorder2, remove2, record2 = rng.random() < 0.5, rng.random() < 0.5, rng.random() < 0.5
    form2, arg2 = ext.id_array_form(rng, l2, lowlevel=(variant == "ll"))
    top2 = ext.top_snapshot(res)
    if variant == "ts":
        tag2, res2, _, _, err2 = do_subset(rng, "ts", None, arg2, record2, reorder2, remove2, src_ts=res_ts)
    else:
        tag2, res2, _, _, err2 = do_subset(rng, variant, res, arg2, record2, reorder2, remove2)
    detail2 = _detail(got, nodes=l2, reorder_populations=reorder2, remove_unreferenced=remove2, variant=variant,
                      record_provenance=record2, call_form=tag2, nodes_form=form2, first_call=detail)
    if isinstance(err2, TypeError) and form2 not in ext.STRICT_FORMS:
        ctx.count("subset:exotic-node-array-refused(either)")
    elif err2 is not None:
        ctx.violation("subset-chain/raised", f"second subset({_short(l2)}) of the object produced by "
                                             f"subset({_short(lst)}) raised {type(err2).__name__}: {err2}", detail2)
    else:
        check_subset_result(ctx, "subset-chain", res2, got, l2, reorder2, remove2, variant, record2, top2,
                            detail2, scrambled=scrambled)
    if variant == "ts":
        ctx.count("subset:same-source-again")
        _, res3, _, _, err3 = do_subset(rng, "ts", None, arg, record, reorder, remove, src_ts=src_ts)
        if err3 is not None or from_tables(res3).signature() != from_tables(res).signature():
            ctx.violation("subset-chain/second-call-differs", f"the same subset({_short(lst)}) of the same tree "
                                                              f"sequence gave another result the second time "
                                                              f"({err3})", detail)


def run_subset_huge(case, ctx, rng):
    """Every table > 65535 rows, raw numpy columns in, raw numpy columns compared (E1 x E2 candidates)."""
    import numpy as np
    g = np.random.default_rng(rng.getrandbits(63))
    c = ext.huge_columns(g)
    N = len(c["nodes"]["time"])
    drop = int(g.integers(0, 300)) if rng.random() < 0.7 else N // 2
    lst = g.permutation(N)[:N - drop]
    reorder, remove = rng.random() < 0.5, rng.random() < 0.5
    ctx.feature("subset:mode:huge")
    ctx.feature(f"subset:huge:reorder={int(reorder)},remove={int(remove)},{'few' if drop < 300 else 'half'}-dropped")
    _sig(ctx, case, ("subset-huge", N, drop, reorder, remove, int(lst[0])), nontrivial=True)
    tc = ext.columns_to_tables(c)
    form = rng.choice(["np-int32", "np-int64", "list"])
    arg = lst.astype(np.int32) if form == "np-int32" else (lst if form == "np-int64" else [int(x) for x in lst])
    what = (f"subset(<{len(lst)} of {N} nodes as {form}, numpy seed from case>, reorder_populations={reorder}, "
            f"remove_unreferenced={remove}) on tables with > 65535 rows each")
    try:
        tc.subset(arg, record_provenance=False, reorder_populations=reorder, remove_unreferenced=remove)
    except CALL_ERRORS as e:
        ctx.violation("subset-huge/raised", f"{what} raised {type(e).__name__}: {e}")
        return
    ctx.count("subset:huge-ref")
    bad = ext.bad_offsets_np(tc)
    if bad:
        ctx.violation("subset-huge/broken-offsets", f"{what}: ragged columns broken {bad}")
        return
    exp, cands = ext.np_ref_subset(c, lst, reorder, remove)
    gotcols = {name: ext.table_columns(tc, name) for name in ext.FIXED_COLS}
    for name in ("nodes", "edges", "sites", "mutations", "populations"):
        msg = ext.columns_diff(gotcols[name], exp[name], name)
        if msg:
            ctx.violation(f"subset-huge/{name}", f"{what}: {msg}")
    best = None
    for lname, rows, node_ind in cands:
        msg = ext.columns_diff(gotcols["individuals"], rows, "individuals") or \
            ext.columns_diff(gotcols["nodes"], {"individual": node_ind}, "nodes")
        if msg is None:
            ctx.feature("subset:huge:individual-layout:" + lname.split("/")[0])
            best = None
            break
        best = best or f"(layout {lname}) {msg}"
    if best:
        ctx.violation("subset-huge/individuals", f"{what}: no accepted individual layout matches, e.g. {best}")


# --------------------------------------------------------------------------- union


def split_for_union(rng, m, independent=False):
    """Choose shared S and exclusive X (self), Y (other) node sets."""
    n = len(m.nodes)
    ids = list(range(n))
    r = rng.random()
    S, X, Y = [], [], []
    for u in ids:
        q = rng.random()
        if r < 0.1:
            part = "Y" if q < 0.5 else "S"          # nothing exclusive to self
        elif r < 0.2:
            part = "X" if q < 0.5 else "Y"          # nothing shared
        elif r < 0.25:
            part = "S"                              # nothing new
        else:
            part = "S" if q < 0.4 else ("X" if q < 0.6 else ("Y" if q < 0.9 else "-"))
        if part == "S":
            S.append(u)
        elif part == "X":
            X.append(u)
        elif part == "Y":
            Y.append(u)
    return S, X, Y


PERTURB = ("node-metadata", "node-flags", "node-time", "node-population", "node-individual", "edge-removed",
           "edge-metadata", "edge-interval", "mutation-derived", "mutation-metadata", "mutation-time",
           "mutation-added", "site-ancestral", "site-metadata", "site-position", "individual-flags",
           "individual-metadata", "individual-location", "individual-parents", "population-metadata")


def perturb_shared(rng, om, shared_ids):
    """Change one datum of the shared portion of `other` (om: model; shared_ids: its shared node ids) in a way
    that stays visible when the shared portion is extracted with subset.  Returns (kind, model) or None when no
    such datum exists.  The perturbed collection keeps referential integrity; it may stop being a valid tree
    sequence (node-time, mutation-time, site-position): the caller then uses the TableCollection entry point."""
    sh = set(shared_ids)
    kinds = list(PERTURB)
    rng.shuffle(kinds)
    for kind in kinds:
        o = om.copy()
        if kind.startswith("node") and sh:
            u = rng.choice(sorted(sh))
            fl, t, p, i, md = o.nodes[u]
            if kind == "node-metadata":
                md = flip(rng, md)
            elif kind == "node-flags":
                fl ^= 1 << rng.choice([0, 1, 5, 20, 31])
            elif kind == "node-time":
                t = t + rng.choice([0.125, -0.125, 1.0, 2.0 ** -40 * max(1.0, abs(t))])
            elif kind == "node-population":
                # (ids are relabelled by the comparison: only a population with OTHER CONTENT, or NULL, differs)
                row = None if p == NULL else o.populations[p]
                cand = [x for x in [NULL] + list(range(len(o.populations)))
                        if (None if x == NULL else o.populations[x]) != row]
                if not cand:
                    continue
                p = rng.choice(cand)
            else:
                row = None if i == NULL else (o.individuals[i][0], o.individuals[i][1], o.individuals[i][3])
                cand = [x for x in [NULL] + list(range(len(o.individuals)))
                        if (None if x == NULL else (o.individuals[x][0], o.individuals[x][1],
                                                    o.individuals[x][3])) != row]
                if not cand:
                    continue
                i = rng.choice(cand)
            if (fl, t, p, i, md) == o.nodes[u]:
                continue
            o.nodes[u] = (fl, t, p, i, md)
            return kind, o
        if kind.startswith("edge"):
            es = [j for j, e in enumerate(o.edges) if e[2] in sh and e[3] in sh]
            if not es:
                continue
            j = rng.choice(es)
            l, r, p, c, md = o.edges[j]
            if kind == "edge-removed":
                del o.edges[j]
            elif kind == "edge-metadata":
                o.edges[j] = (l, r, p, c, flip(rng, md))
            else:
                mid = (l + r) / 2
                o.edges[j] = (l, mid, p, c, md) if rng.random() < 0.5 else (mid, r, p, c, md)
            return kind, o
        if kind.startswith("mutation") or kind.startswith("site"):
            ks = [k for k, mu in enumerate(o.mutations) if mu[1] in sh]
            if not ks:
                continue
            k = rng.choice(ks)
            s, u, d, p, t, md = o.mutations[k]
            if kind == "mutation-derived":
                o.mutations[k] = (s, u, d + "X", p, t, md)
            elif kind == "mutation-metadata":
                o.mutations[k] = (s, u, d, p, t, flip(rng, md))
            elif kind == "mutation-time":
                if t is None:
                    continue
                o.mutations[k] = (s, u, d, p, t + rng.choice([0.0625, -0.0625]), md)
            elif kind == "mutation-added":
                # one more mutation on a shared node, after the last mutation of the site
                last = max(x for x, mu in enumerate(o.mutations) if mu[0] == s)
                t2 = o.mutations[last][4]
                row = (s, u, "N", NULL, None if t2 is None else o.nodes[u][1], b"+")
                o.mutations = [(a, b, c_, (pp + 1 if pp > last else pp), e, f)
                               for a, b, c_, pp, e, f in o.mutations]
                o.mutations.insert(last + 1, row)
            elif kind == "site-ancestral":
                pos, a, smd = o.sites[s]
                o.sites[s] = (pos, a + "Q", smd)
            elif kind == "site-metadata":
                pos, a, smd = o.sites[s]
                o.sites[s] = (pos, a, flip(rng, smd))
            else:
                pos, a, smd = o.sites[s]
                taken = {x[0] for x in o.sites}
                cand = [q for q in (pos + 2.0 ** -10, pos / 2 + 2.0 ** -12, (pos + o.L) / 2) if 0 <= q < o.L
                        and q not in taken]
                if not cand:
                    continue
                o.sites[s] = (rng.choice(cand), a, smd)
            return kind, o
        if kind.startswith("individual"):
            inds = sorted({o.nodes[u][3] for u in sh if o.nodes[u][3] != NULL})
            if not inds:
                continue
            i = rng.choice(inds)
            fl, loc, par, md = o.individuals[i]
            if kind == "individual-flags":
                fl ^= 1 << rng.choice([0, 3, 17])
            elif kind == "individual-metadata":
                md = flip(rng, md)
            elif kind == "individual-location":
                loc = loc + (1.5,)
            else:
                par = par + (NULL,)      # a NULL parent survives every subset (E2 concerns non-NULL ones)
            o.individuals[i] = (fl, loc, par, md)
            return kind, o
        if kind == "population-metadata":
            ps = sorted({o.nodes[u][2] for u in sh if o.nodes[u][2] != NULL})
            if not ps:
                continue
            p = rng.choice(ps)
            o.populations[p] = (flip(rng, o.populations[p][0]),)
            return kind, o
    return None


def flip(rng, b):
    """One metadata byte changed (or one appended to an empty value)."""
    if not b:
        return bytes([rng.choice([1, 66, 255])])
    j = rng.randrange(len(b))
    return b[:j] + bytes([b[j] ^ (1 << rng.randrange(8))]) + b[j + 1:]


def do_union(rng, variant, stc, otc, marg, check, add_pops, record, sts=None, ots=None, tag=None):
    """One union call through the chosen entry point.  Returns (form tag, result tables, result ts, error)."""
    if tag is None:
        tag = rng.choice(ext.UNION_FORMS["ll" if variant == "ll" else "py"])
    try:
        if variant == "ts":
            sts = stc.tree_sequence() if sts is None else sts
            ots = otc.tree_sequence() if ots is None else ots
            res_ts = ext.union_call(rng, tag, "ts", sts, ots, marg, check, add_pops, record)
            return tag, res_ts.dump_tables(), res_ts, None
        if variant == "ll":
            ext.union_call(rng, tag, "ll", stc._ll_tables, otc._ll_tables, marg, check, add_pops, None)
        else:
            ext.union_call(rng, tag, "tables", stc, otc, marg, check, add_pops, record)
        return tag, stc, None, None
    except CALL_ERRORS as e:
        return tag, None, None, e


def individual_sharing(om, mapping):
    """(some individual of `other` owns a shared and a new node, ... and its first node in other is a new one)"""
    kinds = {}
    for k, nd in enumerate(om.nodes):
        if nd[3] != NULL:
            kinds.setdefault(nd[3], []).append(mapping[k] == NULL)
    both = [i for i, v in kinds.items() if any(v) and not all(v)]
    return bool(both), any(kinds[i][0] for i in both)


def check_union_result(ctx, key, res, sm, om, mapping, add_pops, check_shared, variant, record, top_before,
                       detail, what):
    """Compare the tables `res` of one union call with the reference union of the models sm, om.  Returns the
    model read back when everything agreed (None otherwise, and also None in the EITHER zone E4)."""
    exp, either = ref_union(sm, om, mapping, add_populations=add_pops)
    got, bad = read_back(res)
    if bad:
        ctx.count("union:ref")
        ctx.violation(f"{key}/broken-offsets", f"{what}: ragged columns broken {bad}", detail)
        return None
    check_top(ctx, key, top_before, res, what)
    if either:
        # E4: the documented sort does not put a parent mutation first; union may raise or return, and mutation
        # rows are not decided.  Everything that does not depend on the mutation order still is.
        ctx.count("union:either-zone-parent-order")
        ctx.count("union:either-zone-other-tables")
        for cand in (exp, ref_union(sm, om, mapping, add_populations=add_pops, parent_mode="drop")[0]):
            d = diff_models(got, cand, tables=("nodes", "edges", "sites", "individuals", "populations"))
            if not d:
                break
        strip = lambda mm: _msorted([(s, u, d_, t, md) for s, u, d_, p, t, md in mm.mutations])  # noqa: E731
        if not d and strip(got) != strip(exp):
            d = [("mutations", "row multiset (parents aside) differs: " + _first_diff(strip(got), strip(exp)))]
        for name, msg in d[:3]:
            ctx.violation(f"{key}/{name}", f"{what} {name}: {msg}", detail)
        return None
    ctx.count("union:ref")
    ctx.count("union:index-consistent")
    msg = stale_index(res)
    if msg:
        ctx.violation(f"{key}/stale-index", f"{what}: {msg}", detail)
    cands = [exp, ref_union(sm, om, mapping, add_populations=add_pops, parent_mode="drop")[0]]
    d = best_match(got, cands)
    for name, msg in d[:3]:
        ctx.violation(f"{key}/{name}", f"{what} {name}: {msg}", detail)
    if variant == "ll":
        check_provenance(ctx, key, sm.provenances, got.provenances, False, "union")
    else:
        check_provenance(ctx, key, sm.provenances, got.provenances, record, "union", {"node_mapping": list(mapping)})
    if d:
        return None
    ctx.count("union:loads")
    try:
        res.tree_sequence()
    except LIBERR as e:
        ctx.violation(f"{key}/result-does-not-load", f"{what}: result rejected: {e}", detail)
    return got


BAD_MAPS = ("too-large", "too-large", "below-null", "too-short", "too-long", "not-int32", "dup-target")


def run_union(case, ctx):
    rng = case_rng(case)
    mode = case.get("mode", "std")
    m = mode_model(rng, case, ctx, 0.15)
    S, X, Y = split_for_union(rng, m)
    add_pops = rng.random() < 0.5
    check_shared = rng.random() < 0.6
    record = rng.random() < 0.5
    variant = "ll" if mode == "ll" else rng.choice(["tables", "ts"])
    self_list = S + X
    other_list = S + Y
    rng.shuffle(self_list)
    rng.shuffle(other_list)
    if S and Y and m.individuals and rng.random() < 0.3:
        # FORCED (f): one individual owns a shared and a new node, and the new node comes first in `other`
        s, y = rng.choice(S), rng.choice(Y)
        i = m.nodes[s][3] if m.nodes[s][3] != NULL else rng.randrange(len(m.individuals))
        for u in (s, y):
            fl, t, p, _, md = m.nodes[u]
            m.nodes[u] = (fl, t, p, i, md)
        a, b = other_list.index(y), other_list.index(s)
        if a > b:
            other_list[a], other_list[b] = other_list[b], other_list[a]
    # With add_populations=False population ids of other are used verbatim in self: both sides keep the whole
    # population table so that the ids mean the same thing.
    reorder = add_pops and rng.random() < 0.7
    sm = ref_sort(ref_subset(m, self_list, reorder_populations=reorder, remove_unreferenced=reorder))
    alias = mode == "alias"
    if alias:
        # union(other=self): `other` is "another table collection" in the docs; the same object is the extreme
        # case of two collections sharing everything.  EITHER refused with an error or equal to the reference.
        variant = rng.choice(["tables", "ll"])
        om = sm
        p_id = rng.choice([0.0, 0.5, 0.9, 1.0])
        mapping = [k if rng.random() < p_id else NULL for k in range(len(sm.nodes))]
        shared_other_ids = [k for k in range(len(sm.nodes)) if mapping[k] != NULL]
    else:
        om = ref_sort(ref_subset(m, other_list, reorder_populations=reorder, remove_unreferenced=reorder))
        pos_in_self = {u: k for k, u in enumerate(self_list)}
        Sset = set(S)
        mapping = [pos_in_self[u] if u in Sset else NULL for u in other_list]
        shared_other_ids = [k for k, u in enumerate(other_list) if u in Sset]
    perturbed = None
    if not alias and mode != "badmap" and rng.random() < 0.35:
        pr = perturb_shared(rng, om, shared_other_ids)
        if pr is not None:
            perturbed, om = pr
    bad_map = None
    call_mapping = mapping
    if mode == "badmap":
        ns = len(sm.nodes)
        bad_map = rng.choice(BAD_MAPS)
        call_mapping = list(mapping)
        if bad_map == "dup-target" and len(shared_other_ids) < 2:
            bad_map = "too-large"
        if bad_map in ("too-large", "below-null", "not-int32") and not call_mapping:
            bad_map = "too-long"
        if bad_map == "too-large":
            call_mapping[rng.randrange(len(call_mapping))] = rng.choice([ns, ns, ns + 1, ns + 1000, 2 ** 31 - 1])
        elif bad_map == "below-null":
            call_mapping[rng.randrange(len(call_mapping))] = rng.choice([-2, -2, -3, -2 ** 31])
        elif bad_map == "not-int32":
            call_mapping[rng.randrange(len(call_mapping))] = rng.choice([2 ** 31, -2 ** 31 - 1, 2 ** 40, 2 ** 32,
                                                                          2 ** 32 - 1])
        elif bad_map == "too-short":
            if call_mapping:
                del call_mapping[rng.randrange(len(call_mapping))]
            else:
                bad_map = "too-long"
        if bad_map == "too-long":
            call_mapping.insert(rng.randint(0, len(call_mapping)), rng.choice([NULL, 0 if ns else NULL]))
        if bad_map == "dup-target":
            a, b = rng.sample(shared_other_ids, 2)
            call_mapping[a] = call_mapping[b]
    ctx.feature(f"union:{variant}")
    ctx.feature(f"union:mode:{mode}")
    ctx.feature(f"union:add_populations={int(add_pops)},check={int(check_shared)}")
    ctx.feature(f"union:shared={'0' if not S else 'some'},new={'0' if not Y else 'some'},own={'0' if not X else 'some'}")
    if perturbed:
        ctx.feature(f"union:perturbed:{perturbed}")
    both, new_first = individual_sharing(om, mapping)
    if both:
        ctx.feature("union:individual-owns-shared-and-new-node")
    if new_first:
        ctx.feature("union:individual-owns-shared-and-new-node(new-first)")
    for t in m.tags:
        ctx.feature(t)
    _sig(ctx, case, ("union", m.signature(), tuple(self_list), tuple(other_list), add_pops, check_shared, variant,
                     perturbed, mode, tuple(call_mapping)),
         nontrivial=(bool(Y) or alias) and (len(om.edges) > 0 or len(om.mutations) > 0))
    stc = to_tables(sm, with_index=rng.random() < 0.5)
    if alias:
        otc = stc
    else:
        with_index = rng.random() < 0.5
        try:
            otc = to_tables(om, with_index=with_index)
        except LIBERR:
            otc = to_tables(om)      # a node-time perturbation can make the edges unindexable
    decorated = rng.random() < 0.35
    if decorated:
        params = ext.top_params(rng)
        ext.decorate_top(stc, params)
        if not alias:
            ext.decorate_top(otc, params)
        ctx.feature("union:schemas/top-level-data-present")
    top_before = ext.top_snapshot(stc)
    if variant == "ts":
        stc.tree_sequence()      # a failure here is an error of the reference subset, not a verdict
        try:
            otc.tree_sequence()
        except LIBERR:
            if not perturbed:
                raise
            # node-time / mutation-time / site-position perturbations: integrity holds, validity does not
            variant = "tables"
            ctx.feature("union:perturbed-other-not-a-tree-sequence(tables entry point)")
    other_valid = True
    if perturbed and variant != "ts":
        try:
            otc.tree_sequence()
        except LIBERR:
            other_valid = False
    map_form, marg = ext.id_array_form(rng, call_mapping, lowlevel=(variant == "ll"))
    ctx.feature(f"union:mapping-as:{map_form}")
    detail = {"self": sm.to_json() if len(sm.nodes) <= 64 else "<big: replay>",
              "other": om.to_json() if len(om.nodes) <= 64 else "<big: replay>", "node_mapping": call_mapping,
              "add_populations": add_pops, "check_shared_equality": check_shared, "variant": variant,
              "perturbed": perturbed, "mode": mode, "mapping_form": map_form, "decorated": decorated}
    if mode == "wide":
        detail["self"] = detail["other"] = "<wide: replay>"
    if case["k"] < 20 and mode in ("std", "ll", "chain"):
        ctx.sample({"case": case, **detail})
    other_before = None if alias else from_tables(otc).signature()
    tag = rng.choice(ext.UNION_FORMS["ll" if variant == "ll" else "py"])
    ctx.feature(f"union:call:{tag}")
    detail["call_form"] = tag
    what = (f"union(node_mapping={_short(call_mapping)} as {map_form}, add_populations={add_pops}, "
            f"check_shared_equality={check_shared}) [{variant}/{tag}{'/other is self' if alias else ''}]")
    if alias:
        # in a forked child: the result comes back through a file, a sanitizer abort as a description
        import os
        import tempfile
        fd, path = tempfile.mkstemp(prefix="verif-c14-alias-", suffix=".trees")
        os.close(fd)

        def child():
            _, r_, _, e_ = do_union(rng, variant, stc, stc, marg, check_shared, add_pops, record, tag=tag)
            if e_ is None:
                r_.dump(path)
            return None if e_ is None else (type(e_).__name__, str(e_))

        try:
            status, value, report = ext.run_forked(child)
            res, res_ts, err = None, None, None
            if status == "ok" and value is None:
                res = tskit.TableCollection.load(path)
            elif status == "ok":
                err = TypeError(value[1]) if value[0] == "TypeError" else tskit.LibraryError(f"{value[0]}: {value[1]}")
        finally:
            os.unlink(path)
        ctx.count("union:alias-call")
        if status == "timeout":
            ctx.count("union:alias-child-timeout(no verdict)")
            return
        if status == "died":
            ctx.violation(f"union-alias/crash/{value}",
                          f"{what} on a collection of {len(sm.nodes)} nodes killed the process ({value}); "
                          f"self = {json.dumps(sm.to_json())[:700]}", {**detail, "report": report})
            return
    else:
        _, res, res_ts, err = do_union(rng, variant, stc, otc, marg, check_shared, add_pops, record, tag=tag)
    if other_before is not None and from_tables(otc).signature() != other_before:
        ctx.violation("union/other-modified", f"{what} modified `other`", detail)
    if bad_map:
        if bad_map == "dup-target":
            ctx.count("union:two-nodes-mapped-to-one(either)")   # undocumented: memory safety only
            return
        ctx.count("union:bad-node-mapping-rejected")
        ctx.feature(f"union:bad-map:{bad_map}")
        if err is None:
            ctx.violation(f"union/bad-node-mapping-accepted/{bad_map}",
                          f"{what} on {len(sm.nodes)} self nodes and {len(om.nodes)} other nodes returned; every "
                          f"entry must be NULL or a node id of self, one per node of other", detail)
        return
    if isinstance(err, TypeError) and map_form not in ext.STRICT_FORMS:
        ctx.count("union:exotic-mapping-array-refused(either)")
        return
    if perturbed and check_shared:
        ctx.count("union:refusal")
        if err is None:
            ctx.violation("union/differing-shared-part-accepted",
                          f"other's shared portion differs ({perturbed}) but {what} returned", detail)
        return
    if perturbed and (not other_valid or perturbed == "node-individual"):
        # E8: outside the quantifier (other is not a valid tree sequence / a shared node refers to another
        # individual than in self) and unchecked: memory safety only
        ctx.count("union:perturbed-inconsistent-unchecked(either)")
        return
    if alias and err is not None and not isinstance(err, TypeError):
        ctx.count("union:alias-refused(either)")
        return
    if err is not None:
        if ref_union(sm, om, mapping, add_populations=add_pops)[1]:
            ctx.count("union:either-zone-parent-order")  # E4: may raise
            return
        ctx.violation("union/raised", f"{what} raised {type(err).__name__}: {err}", detail)
        return
    if alias:
        ctx.count("union:alias-result")
    got = check_union_result(ctx, "union-alias" if alias else "union", res, sm, om, mapping, add_pops,
                             check_shared, variant, record, top_before, detail, what)
    if got is None or mode != "chain":
        return
    # ---- the same object again (d): a second union into the collection / tree sequence the first one produced.
    # Unchecked (the first union does not contain the edges between self-only and new nodes, so the shared
    # portions rightly differ): purely the documented additions.
    ctx.count("union:chain")
    new_ids = [k for k in range(len(other_list)) if mapping[k] == NULL]
    result_src = self_list + [other_list[k] for k in new_ids]
    pos_in_res = {u: k for k, u in enumerate(result_src)}
    if rng.random() < 0.4:
        om2, list3 = om, other_list        # the same `other` once more: nothing is new any longer
        ctx.feature("union:chain:same-other-again")
    else:
        rest = [u for u in range(len(m.nodes)) if u not in pos_in_res]
        list3 = rng.sample(result_src, rng.randint(0, len(result_src))) + rest
        rng.shuffle(list3)
        om2 = ref_sort(ref_subset(m, list3, reorder_populations=reorder, remove_unreferenced=reorder))
        ctx.feature("union:chain:third-part")
    mapping2 = [pos_in_res.get(u, NULL) for u in list3]
    add_pops2 = True if reorder else rng.random() < 0.5
    record2 = rng.random() < 0.5
    otc2 = to_tables(om2, with_index=rng.random() < 0.5)
    if decorated:
        ext.decorate_top(otc2, params)
    form2, marg2 = ext.id_array_form(rng, mapping2, lowlevel=(variant == "ll"))
    top2 = ext.top_snapshot(res)
    tag2, res2, _, err2 = do_union(rng, variant, res, otc2, marg2, False, add_pops2, record2, sts=res_ts)
    what2 = (f"second union(node_mapping={_short(mapping2)} as {form2}, add_populations={add_pops2}, "
             f"check_shared_equality=False) [{variant}/{tag2}] into the result of {what}")
    detail2 = {"self": got.to_json() if len(got.nodes) <= 64 else "<big>", "other": om2.to_json()
               if len(om2.nodes) <= 64 else "<big>", "node_mapping": mapping2, "add_populations": add_pops2,
               "first_call": detail}
    if isinstance(err2, TypeError) and form2 not in ext.STRICT_FORMS:
        ctx.count("union:exotic-mapping-array-refused(either)")
        return
    if err2 is not None:
        if ref_union(got, om2, mapping2, add_populations=add_pops2)[1]:
            ctx.count("union:either-zone-parent-order")
            return
        ctx.violation("union-chain/raised", f"{what2} raised {type(err2).__name__}: {err2}", detail2)
        return
    check_union_result(ctx, "union-chain", res2, got, om2, mapping2, add_pops2, False, variant, record2, top2,
                       detail2, what2)


# --------------------------------------------------------------------------- split / rejoin law


def law_precondition(m, A, B, C, populations=True):
    """Reasons why the split/rejoin law does NOT apply to the cover (A shared, B, C); [] if it applies.
    populations=False: the rejoin keeps population ids (reorder_populations=False, add_populations=False), so
    populations may be referenced from anywhere."""
    A, B, C = set(A), set(B), set(C)
    why = []
    if (A | B | C) != set(range(len(m.nodes))) or (A & B) or (A & C) or (B & C):
        why.append("not a cover")
    for l, r, p, c, md in m.edges:
        if (p in B and c in C) or (p in C and c in B):
            why.append("edge joins B and C")
            break
    ref_by = {}
    for u, nd in enumerate(m.nodes):
        if nd[3] != NULL:
            ref_by.setdefault(nd[3], set()).add("A" if u in A else ("B" if u in B else "C"))
    for i, parts in ref_by.items():
        if "B" in parts and "C" in parts and "A" not in parts:
            # (an individual that also has a shared node is recognised through it and not duplicated)
            why.append("individual referenced from B and C only")
            break
    # an individual row must be the same wherever it is visible: its referenced parents must be visible there
    for i, parts in ref_by.items():
        in_self = bool(parts & {"A", "B"})
        in_other = bool(parts & {"A", "C"})
        for p in m.individuals[i][2]:
            if p == NULL or p not in ref_by:
                continue  # unreferenced parents disappear everywhere, also in the canonical original
            pp = ref_by[p]
            if (in_self and not (pp & {"A", "B"})) or (in_other and not (pp & {"A", "C"})):
                why.append("individual parent link crosses the parts")
                break
    if populations:
        pop_by = {}
        for u, nd in enumerate(m.nodes):
            if nd[2] != NULL:
                pop_by.setdefault(nd[2], set()).add("A" if u in A else ("B" if u in B else "C"))
        for p, parts in pop_by.items():
            if "C" in parts and len(parts) > 1:
                # union(add_populations=True) gives the new nodes new populations
                why.append("population of a C node referenced elsewhere")
                break
    if m.migrations:
        why.append("migrations")
    return why


def make_independent(rng, m):
    """Choose a time cut and a cover (A, B, C) and *edit individual/population references of the model* so
    that the precondition of the law holds.  The topology decides B/C: connected components of the
    below-cut nodes under 'joined by an edge'."""
    n = len(m.nodes)
    times = sorted({nd[1] for nd in m.nodes})
    # (f) a cover with B or C empty makes the law nearly vacuous: up to four cuts are tried for one that leaves at
    # least two components below it, and the first two components go to different sides
    for attempt in range(4):
        cut = rng.choice(times + [times[0] - 1])
        A = [u for u in range(n) if m.nodes[u][1] > cut]
        R = [u for u in range(n) if m.nodes[u][1] <= cut]
        comp = {u: u for u in R}

        def find(u):
            while comp[u] != u:
                comp[u] = comp[comp[u]]
                u = comp[u]
            return u

        Rset = set(R)
        for l, r, p, c, md in m.edges:
            if p in Rset and c in Rset:
                comp[find(p)] = find(c)
        roots = sorted({find(u) for u in R})
        if len(roots) >= 2 or rng.random() < 0.15:
            break
    side = {r_: rng.choice("BC") for r_ in roots}
    if len(roots) >= 2 and rng.random() < 0.85:
        a, b = rng.sample(roots, 2)
        side[a], side[b] = "B", "C"
    B = [u for u in R if side[find(u)] == "B"]
    C = [u for u in R if side[find(u)] == "C"]
    Aset, Bset, Cset = set(A), set(B), set(C)
    # individuals: types a (referenced by >= 1 A node), b (B only), c (C only), u (unreferenced)
    nind = len(m.individuals)
    npop = len(m.populations)
    ityp = [rng.choice("abcu") for _ in range(nind)]
    ptyp = [rng.choice("xxc") for _ in range(npop)]   # x: A/B nodes only; c: C nodes only
    by_t = lambda typ, ch: [i for i, t in enumerate(typ) if t in ch]  # noqa: E731
    icands = {"A": by_t(ityp, "a"), "B": by_t(ityp, "ab"), "C": by_t(ityp, "ac")}
    pcands = {"A": by_t(ptyp, "x"), "B": by_t(ptyp, "x"), "C": by_t(ptyp, "c")}
    nodes = []
    for u, (fl, t, p, i, md) in enumerate(m.nodes):
        part = "A" if u in Aset else ("B" if u in Bset else "C")
        icand, pcand = icands[part], pcands[part]
        i = rng.choice(icand) if icand and rng.random() < 0.6 else NULL
        p = rng.choice(pcand) if pcand and rng.random() < 0.7 else NULL
        nodes.append((fl, t, p, i, md))
    m.nodes = nodes
    # type-a individuals never referenced from A degrade: make them unreferenced-from-both by re-typing
    refA = {nd[3] for u, nd in enumerate(m.nodes) if u in Aset and nd[3] != NULL}
    for i in range(nind):
        if ityp[i] == "a" and i not in refA:
            parts = {("B" if u in Bset else "C") for u, nd in enumerate(m.nodes) if nd[3] == i}
            if len(parts) == 2:
                # referenced from B and C but not from A: detach the C references
                m.nodes = [(fl, t, p, NULL if (ii == i and u in Cset) else ii, md)
                           for u, (fl, t, p, ii, md) in enumerate(m.nodes)]
                ityp[i] = "b"
            elif parts == {"B"}:
                ityp[i] = "b"
            elif parts == {"C"}:
                ityp[i] = "c"
            else:
                ityp[i] = "u"
    referenced = {nd[3] for nd in m.nodes if nd[3] != NULL}
    inds = []
    for i, (fl, loc, par, md) in enumerate(m.individuals):
        if i not in referenced:
            ok = list(range(nind))
        else:
            allowed = {"a": "a", "b": "ab", "c": "ac"}[ityp[i]]
            ok = [j for j in range(nind) if (j in referenced and ityp[j] in allowed) or j not in referenced]
        ok = [j for j in ok if j != i]
        newpar = tuple(rng.choice(ok + [NULL]) if ok else NULL for _ in par)
        inds.append((fl, loc, newpar, md))
    m.individuals = inds
    return cut, A, B, C


def has_individual_cycle(m):
    n = len(m.individuals)
    state = [0] * n
    for start in range(n):
        if state[start]:
            continue
        stack = [(start, iter(m.individuals[start][2]))]
        state[start] = 1
        while stack:
            i, it = stack[-1]
            for p in it:
                if p == NULL:
                    continue
                if state[p] == 1:
                    return True
                if state[p] == 0:
                    state[p] = 1
                    stack.append((p, iter(m.individuals[p][2])))
                    break
            else:
                state[i] = 2
                stack.pop()
    return False


def run_law(case, ctx):
    rng = case_rng(case)
    mode = case.get("mode", "std")
    if mode == "huge":
        return run_law_huge(case, ctx, rng)
    m = mode_model(rng, case, ctx, 0.25)
    if not m.individuals and not m.populations and rng.random() < 0.5:
        gen.decorate_pops_inds(rng, m, npop=rng.randint(1, 4), nind=rng.randint(1, 5))
    cut, A, B, C = make_independent(rng, m)
    if has_individual_cycle(m):
        # canonicalise (inside the shared-equality check and at the end) needs acyclic individual parents
        m.individuals = [(fl, loc, tuple(p for p in par if p == NULL or p < i), md)
                         for i, (fl, loc, par, md) in enumerate(m.individuals)]
    # (d) the quantifier also names add_populations=False: then both parts keep the population table untouched
    # (reorder_populations=False) and population ids are carried over verbatim, so populations may be shared
    # between the parts in any way
    add_pops = rng.random() < 0.6
    if not add_pops and m.populations and rng.random() < 0.7:
        m.nodes = [(fl, t, rng.choice([NULL] + list(range(len(m.populations)))), i, md)
                   for fl, t, p, i, md in m.nodes]
        ctx.feature("law:populations-shared-between-parts(add_populations=False)")
    why = law_precondition(m, A, B, C, populations=add_pops)
    ctx.count("law:precondition-evaluated")
    if why:
        ctx.count("law:precondition-failed(skipped)")
        ctx.feature("law:skip:" + why[0])
        _sig(ctx, case, None, nontrivial=False)
        return
    variant = "ll" if mode == "ll" else rng.choice(["tables", "ts"])
    self_list = A + B
    other_list = A + C
    rng.shuffle(self_list)
    rng.shuffle(other_list)
    Aset = set(A)
    pos_in_self = {u: k for k, u in enumerate(self_list)}
    mapping = [pos_in_self[u] if u in Aset else NULL for u in other_list]
    order = self_list + [u for u in other_list if u not in Aset]
    ctx.feature(f"law:{variant}")
    ctx.feature(f"law:mode:{mode}")
    ctx.feature(f"law:add_populations={int(add_pops)}")
    ctx.feature(f"law:A={'0' if not A else 'n'},B={'0' if not B else 'n'},C={'0' if not C else 'n'}")
    if any(nd[3] != NULL for nd in m.nodes):
        ctx.feature("law:individuals")
    if any(nd[2] != NULL for nd in m.nodes):
        ctx.feature("law:populations")
    for t in m.tags:
        ctx.feature(t)
    _sig(ctx, case, ("law", m.signature(), tuple(self_list), tuple(other_list), variant, add_pops),
         nontrivial=bool(B) and bool(C) and len(m.edges) > 0)
    detail = _detail(m, cut=cut, A=A, B=B, C=C, self_nodes=self_list, other_nodes=other_list,
                     node_mapping=mapping, variant=variant, add_populations=add_pops)
    if case["k"] < 30 and mode in ("std", "ll"):
        ctx.sample({"case": case, **detail})
    check_shared = rng.random() < 0.8
    reorder = add_pops
    params = ext.top_params(rng) if rng.random() < 0.3 else None
    low = variant == "ll"
    f1, a1 = ext.id_array_form(rng, self_list, lowlevel=low)
    f2, a2 = ext.id_array_form(rng, other_list, lowlevel=low)
    f3, a3 = ext.id_array_form(rng, mapping, lowlevel=low)
    detail["forms"] = [f1, f2, f3]
    for f in (f1, f2, f3):
        if f not in ext.STRICT_FORMS:
            ctx.feature("law:exotic-id-array")
            break
    try:
        tc1 = to_tables(m)
        if params:
            ext.decorate_top(tc1, params)
        top_before = ext.top_snapshot(tc1)
        if variant == "ts":
            ts = tc1.tree_sequence()
            t1 = ext.subset_call(rng, rng.choice(ext.SUBSET_FORMS["ts"]), "ts", ts, a1, True, reorder, True)
            t2 = ext.subset_call(rng, rng.choice(ext.SUBSET_FORMS["ts"]), "ts", ts, a2, True, reorder, True)
            res = ext.union_call(rng, rng.choice(ext.UNION_FORMS["py"]), "ts", t1, t2, a3, check_shared, add_pops,
                                 True).dump_tables()
        else:
            res = tc1
            oth = tc1.copy()
            v = "ll" if low else "tables"
            for tcx, ax in ((res, a1), (oth, a2)):
                ext.subset_call(rng, rng.choice(ext.SUBSET_FORMS[v]), v, tcx._ll_tables if low else tcx, ax, True,
                                reorder, True)
            ext.union_call(rng, rng.choice(ext.UNION_FORMS["ll" if low else "py"]), v,
                           res._ll_tables if low else res, oth._ll_tables if low else oth, a3, check_shared,
                           add_pops, True)
    except TypeError as e:
        if all(f in ext.STRICT_FORMS for f in (f1, f2, f3)):
            ctx.count("law:rejoin")
            ctx.violation("law/raised", f"split/rejoin of independent parts raised TypeError {e}", detail)
        else:
            ctx.count("law:exotic-id-array-refused(either)")
        return
    except LIBERR as e:
        ctx.count("law:rejoin")
        ctx.violation("law/raised", f"split/rejoin of independent parts (add_populations={add_pops}, "
                                    f"check_shared_equality={check_shared}) [{variant}] raised {e}", detail)
        return
    ctx.count("law:rejoin")
    bad = bad_offsets(res)
    if bad:
        ctx.violation("law/broken-offsets", f"ragged columns broken {bad}", detail)
        return
    check_top(ctx, "law", top_before, res, "subset, subset, union")
    exp = to_tables(permute_nodes(m, order))
    if params:
        ext.decorate_top(exp, params)
    try:
        res.canonicalise()
        exp.canonicalise()
    except LIBERR as e:
        ctx.violation("law/canonicalise-raised", f"canonicalise raised {e}", detail)
        return
    gm, em = from_tables(res), from_tables(exp)
    d = diff_models(gm, em)
    for name, msg in d[:3]:
        ctx.violation(f"law/{name}", f"union(subset(A+B), subset(A+C), add_populations={add_pops}) [{variant}] "
                                     f"canonicalised differs from the original canonicalised in {name}: {msg}",
                      detail)
    ctx.count("law:assert_equals")
    try:
        res.assert_equals(exp, ignore_provenance=True)
    except Exception as e:  # noqa: BLE001  (AssertionError; decoding a differing row for the message may fail too)
        if not d:
            ctx.violation("law/assert_equals", f"assert_equals(ignore_provenance=True) fails: "
                                               f"{type(e).__name__} {str(e)[:300]}", detail)
    # independent of canonicalise(): the same rejoin against the Python reference canonical content
    ctx.count("law:content")
    base = ref_sort(ref_subset(permute_nodes(m, order), list(range(len(order)))))
    if _msorted(gm.edges) != _msorted(base.edges):
        ctx.violation("law/content-edges", "edge multiset of the rejoined collection differs from the original: "
                      + _first_diff(_msorted(gm.edges), _msorted(base.edges)), detail)
    if [nd[:2] + nd[4:] for nd in gm.nodes] != [nd[:2] + nd[4:] for nd in base.nodes]:
        ctx.violation("law/content-nodes", "node rows of the rejoined collection differ from the original", detail)
    strip = lambda mm: _msorted([(mm.sites[s][0], u, d_, t, md) for s, u, d_, p, t, md in mm.mutations])  # noqa: E731
    if strip(gm) != strip(base):
        ctx.violation("law/content-mutations", "mutations of the rejoined collection differ from the original: "
                      + _first_diff(strip(gm), strip(base)), detail)


def run_law_huge(case, ctx, rng):
    """Split / rejoin with more than 65535 NEW nodes, individuals, populations, sites and mutations; raw numpy
    columns compared after canonicalise() on both sides."""
    import numpy as np
    g = np.random.default_rng(rng.getrandbits(63))
    c = ext.huge_columns(g, law=True)
    part = c["part"]
    N = len(part)
    ids = np.arange(N)
    self_list = g.permutation(ids[part != 2])
    other_list = g.permutation(ids[part != 1])
    pos_in_self = np.full(N, -1, dtype=np.int64)
    pos_in_self[self_list] = np.arange(len(self_list))
    mapping = np.where(part[other_list] == 0, pos_in_self[other_list], -1).astype(np.int32)
    order = np.concatenate([self_list, other_list[part[other_list] == 2]])
    check_shared = rng.random() < 0.6
    ctx.feature("law:mode:huge")
    ctx.feature(f"law:huge:check={int(check_shared)}")
    _sig(ctx, case, ("law-huge", N, int(self_list[0]), check_shared), nontrivial=True)
    what = (f"union(subset(A+B), subset(A+C)) with {int((mapping == -1).sum())} new nodes, tables with > 65535 "
            f"rows each (numpy seed from the case), check_shared_equality={check_shared}")
    t1, t2 = ext.columns_to_tables(c), ext.columns_to_tables(c)
    try:
        t1.subset(self_list.astype(np.int32), record_provenance=False)
        t2.subset(other_list.astype(np.int32), record_provenance=False)
        t1.union(t2, mapping, check_shared_equality=check_shared, record_provenance=False)
    except CALL_ERRORS as e:
        ctx.count("law:huge-rejoin")
        ctx.violation("law-huge/raised", f"{what} raised {type(e).__name__}: {e}")
        return
    ctx.count("law:huge-rejoin")
    bad = ext.bad_offsets_np(t1)
    if bad:
        ctx.violation("law-huge/broken-offsets", f"{what}: ragged columns broken {bad}")
        return
    exp = ext.columns_to_tables(ext.relabel_nodes_columns(c, order))
    try:
        t1.canonicalise()
        exp.canonicalise()
    except LIBERR as e:
        ctx.violation("law-huge/canonicalise-raised", f"canonicalise raised {e}")
        return
    for name in ext.FIXED_COLS:
        msg = ext.columns_diff(ext.table_columns(t1, name), ext.table_columns(exp, name), name)
        if msg:
            ctx.violation(f"law-huge/{name}", f"{what}: canonicalised result differs from the canonicalised "
                                              f"original: {msg}")
