import os

from lib.props.meta_common import ASSUME_COMMON

ID = "C16"
META = dict(
    LEVEL="exploration",
    RULE=("forest-walk generated table collections (1-10 nodes, continuous or discrete coordinates, sites at "
          "position 0, up to 13 alleles per site, multi-letter/empty alleles) with an individuals layout drawn from "
          "{none, table present but unused by samples, all samples in individuals of mixed ploidy and non-contiguous "
          "nodes, some samples without individual, an individual mixing sample and non-sample nodes, an individual "
          "of non-sample nodes only}; per case 5 random calls of as_vcf over ploidy x individuals (permuted subsets, "
          "invalid ids, empty) x individual_names x contig_id x position_transform (default, 'legacy', 9 callables) x "
          "site_mask / sample_mask (8 container forms, static and callable) x isolated_as_missing x "
          "allow_position_zero, each parsed and compared field by field with the reference genotypes; one mask-form "
          "metamorphism block (8 forms x allow_position_zero default/True x first site masked/unmasked); one "
          "masked-site independence pair. A case is distinct by the sha1 of its row tuples and non-trivial when it "
          "has at least one site and one sample."),
    REQUIRED=["vcf:compared", "vcf:nonempty-compared", "vcf:error-predicted", "maskform:site-form",
              "maskform:sample-form", "masked-independence:pairs", "masked-independence:text-compared",
              "vcf:write_vcf-vs-as_vcf"],
    ASSUMPTIONS=ASSUME_COMMON + [
        "mutation parents in the generated tables are the ones computed by the reference model",
        "alleles contain no tab, newline or comma (the VCF text would be unparseable by construction)",
    ],
    BUDGET={"quick": 45.0, "thorough": float(os.environ.get("VERIF_C16_THOROUGH_BUDGET", 840.0))},
)
