import os

from lib.props.meta_common import ASSUME_COMMON

ID = "C16"
META = dict(
    LEVEL="exploration",
    RULE=("forest-walk generated table collections (1-10 nodes, continuous or discrete coordinates, sites at "
          "position 0, up to 13 alleles per site, multi-letter/empty alleles) with an individuals layout drawn from "
          "{none, table present but unused by samples, all samples in individuals of mixed ploidy and non-contiguous "
          "nodes, some samples without individual, an individual mixing sample and non-sample nodes, an individual "
          "of non-sample nodes only}; per case 5 random calls of as_vcf over ploidy x individuals (permuted subsets, "
          "invalid ids, empty) x individual_names x contig_id x position_transform (default, 'legacy', 9 callables) x "
          "site_mask / sample_mask (8 container forms, static and callable) x isolated_as_missing x "
          "allow_position_zero, each parsed and compared field by field with the reference genotypes; one mask-form "
          "metamorphism block (8 forms x allow_position_zero default/True x first site masked/unmasked); one "
          "masked-site independence pair. A case is distinct by the sha1 of its row tuples and non-trivial when it "
          "has at least one site and one sample. Audit round: every call of the random block goes through one of 9 "
          "entries (as_vcf, write_vcf into StringIO / text file / TextIOWrapper / write-only object / sys.stdout / "
          "output=..., tskit.vcf.VcfWriter written once or twice) and through randomly chosen argument containers "
          "(ploidy numpy scalars, individuals as tuple / range / int8..uint64 / read-only / strided arrays, names as "
          "tuple / str / object arrays, 0/1 flags, defaults spelled out); 17 mask forms including true entries that "
          "are not 1 (2, -1, 256, 2^32, 0.5, nan), read-only / strided / object arrays; 20 position transforms "
          "including the legacy function itself, non-monotone, negative, 2^40-sized, tuple, int32 and 2-D results; "
          "individuals listed twice or only valid after 32-bit wrapping; callable masks unusable at masked sites; "
          "masked sites replaced by alleles containing tab / newline / comma; coordinates scaled by 2^24, 2^31, 2^40 "
          "and 2^-3 (k % 16 == 3); schema-coded (JSON / struct) metadata on individuals, nodes, sites, mutations "
          "(k % 8 == 5); tree sequences reloaded from a file (k % 16 == 9); and by case index the families big "
          "(k % 50 == 13: 66..1026 samples, up to 513 individuals, ploidy up to 1026), huge (k % 500 == 11: "
          "32 770 / 65 538 / 32 770 / 16 386 samples in turn) and manysites (k % 150 == 31: 130..700 sites)."),
    REQUIRED=["vcf:compared", "vcf:nonempty-compared", "vcf:error-predicted", "maskform:site-form",
              "maskform:sample-form", "masked-independence:pairs", "masked-independence:text-compared",
              "vcf:write_vcf-vs-as_vcf", "vcf:compared-through-other-entry", "vcf:compared-with-argument-forms",
              "big:cases", "huge:cases", "manysites:cases"],
    ASSUMPTIONS=ASSUME_COMMON + [
        "mutation parents in the generated tables are the ones computed by the reference model",
        "alleles contain no tab, newline or comma (the VCF text would be unparseable by construction)",
    ],
    BUDGET={"quick": 45.0, "thorough": float(os.environ.get("VERIF_C16_THOROUGH_BUDGET", 840.0))},
)
