"""C11 helpers added by the audit: argument forms, object sources, exact-boundary values, metadata schemas /
reference sequence decoration, whole-column-empty modes, unsorted tables and the large-instance generator.

Nothing here is an oracle: these functions only produce INPUTS (the same abstract argument in another container
type / call style, the same model through another construction path, extreme but valid models).  The expected
results are computed in c11.py from the RowModel alone.
"""
import copy
import json
import math
import pickle
import struct
import tempfile

import numpy as np
import tskit

from lib.model import NODE_IS_SAMPLE, NULL, RowModel, mutation_parents, sort_edges_key
from lib.tsk import rows_from_columns, to_tables

# ------------------------------------------------------------------------------- reading / building tskit objects


def from_tables(tc):
    """lib.tsk.from_tables with every column fetched ONCE (each attribute access on a tskit table copies the whole
    column, which makes the shared reader quadratic: two minutes for a 500-site collection).  Raw columns only."""
    m = RowModel(tc.sequence_length)
    for name in RowModel.TABLES:
        t = getattr(tc, name)
        cols = {c: getattr(t, c) for c in t.column_names}
        setattr(m, name, rows_from_columns(name, cols))
    m.metadata = tc.metadata_bytes
    m.metadata_schema = repr(tc.metadata_schema)
    m.time_units = tc.time_units
    for name in ("nodes", "edges", "sites", "mutations", "individuals", "populations", "migrations"):
        s = repr(getattr(tc, name).metadata_schema)
        if s:
            m.schemas[name] = s
    if tc.has_reference_sequence():
        rs = tc.reference_sequence
        m.refseq = {"data": rs.data, "url": rs.url, "metadata": rs.metadata_bytes,
                    "metadata_schema": repr(rs.metadata_schema)}
    return m



_SCHEMA_CACHE = {}


def _schema(text):
    """MetadataSchema objects are immutable; building one validates it against the meta-schema (slow)."""
    if text not in _SCHEMA_CACHE:
        _SCHEMA_CACHE[text] = tskit.MetadataSchema(json.loads(text))
    return _SCHEMA_CACHE[text]


def tables_of(mi):
    """to_tables() for models that carry metadata schemas: lib.tsk.to_tables installs a schema BEFORE adding rows and
    would then push the raw metadata bytes of the model through the codec.  Here rows are added schema-less (raw
    bytes, exactly the model's) and the schemas are attached afterwards, which stores them without touching rows."""
    if not (mi.schemas or mi.metadata_schema):
        return to_tables(mi)
    bare = copy.copy(mi)
    bare.schemas = {}
    bare.metadata_schema = ""
    bare.metadata = b""
    tc = to_tables(bare)
    for name, s in mi.schemas.items():
        getattr(tc, name).metadata_schema = _schema(s)
    if mi.metadata_schema:
        tc.metadata_schema = _schema(mi.metadata_schema)
        if mi.metadata:
            tc.metadata = json.loads(mi.metadata)  # canonical JSON text by construction (see decorate_schemas)
    elif mi.metadata:
        tc.metadata = mi.metadata
    return tc


class Source:
    """How the object handed to the operation is obtained from the input model.

    tables: fresh | indexed (build_index() first) | copy (TableCollection.copy()) | dumped (ts.dump_tables(), carries
            indexes) | loaded (dump to / load from a file object) | pickled | after-op (`prep` was applied in place
            to the same object before: reused object)
    ts:     fresh (tables.tree_sequence()) | loaded (dump/tskit.load through a file object) | pickled
    """

    TABLES = ("fresh", "fresh", "fresh", "indexed", "indexed", "copy", "dumped", "loaded", "pickled")
    TS = ("fresh", "fresh", "fresh", "loaded", "pickled")

    def __init__(self, how_tables="fresh", how_ts="fresh", base=None, prep=None):
        self.how_tables, self.how_ts, self.base, self.prep = how_tables, how_ts, base, prep

    @classmethod
    def draw(cls, rng):
        return cls(rng.choice(cls.TABLES), rng.choice(cls.TS))

    def tables(self, mi):
        tc = tables_of(self.base if self.base is not None else mi)
        how = self.how_tables
        if how == "indexed":
            tc.build_index()
        elif how == "copy":
            tc = tc.copy()
        elif how == "dumped":
            tc = tc.tree_sequence().dump_tables()
        elif how == "loaded":
            with tempfile.TemporaryFile() as buf:  # dump() needs a real file descriptor
                tc.dump(buf)
                buf.seek(0)
                tc = tskit.TableCollection.load(buf)
        elif how == "pickled":
            tc = pickle.loads(pickle.dumps(tc))
        if self.prep is not None:
            self.prep(tc)
        return tc

    def ts(self, mi):
        ts = self.tables(mi).tree_sequence() if self.prep is not None else tables_of(mi).tree_sequence()
        how = self.how_ts
        if how == "loaded":
            with tempfile.TemporaryFile() as buf:
                ts.dump(buf)
                buf.seek(0)
                ts = tskit.load(buf)
        elif how == "pickled":
            ts = pickle.loads(pickle.dumps(ts))
        return ts

    def tag(self, api):
        if self.prep is not None:
            return "source:tables:after-op" if api == "tables" else "source:ts:after-op"
        return f"source:{api}:{self.how_tables if api == 'tables' else self.how_ts}"


FRESH = Source()

# ------------------------------------------------------------------------------- argument forms


def call_form(rng, params):
    """params: [(name, value, documented default)] in signature order (after the first, data argument).
    Returns (extra positional args, kwargs, style): all keywords / all positional / first positional, rest keywords /
    arguments equal to their documented default omitted."""
    style = rng.choice(["kw", "kw", "pos", "mixed", "omit-defaults", "omit-defaults"])
    if style == "pos":
        return tuple(v for _, v, _ in params), {}, style
    if style == "mixed" and params:
        return (params[0][1],), {n: v for n, v, _ in params[1:]}, style
    if style == "omit-defaults":
        kw = {n: v for n, v, d in params if v != d}
        return (), kw, style + (":all-omitted" if not kw else "")
    return (), {n: v for n, v, _ in params}, "kw"


def interval_arg(rng, ivs):
    """The interval list in another container ('array_like ... interpretable as a 2D numpy array of shape (N, 2)')."""
    if not ivs:
        form = rng.choice(["list", "tuple", "ndarray-0x2"])
        return {"list": [], "tuple": (), "ndarray-0x2": np.zeros((0, 2))}[form], form
    forms = ["list-of-tuples", "list-of-tuples", "ndarray-f8", "tuple-of-tuples", "list-of-lists",
             "list-of-ndarrays", "ndarray-view", "ndarray-fortran"]
    if all(float(v).is_integer() for iv in ivs for v in iv):
        forms += ["ndarray-i8", "list-of-int-tuples", "ndarray-i4"]
    form = rng.choice(forms)
    if form == "list-of-tuples":
        return [tuple(iv) for iv in ivs], form
    if form == "ndarray-f8":
        return np.array(ivs, dtype=np.float64), form
    if form == "tuple-of-tuples":
        return tuple(tuple(iv) for iv in ivs), form
    if form == "list-of-lists":
        return [list(iv) for iv in ivs], form
    if form == "list-of-ndarrays":
        return [np.array(iv) for iv in ivs], form
    if form == "ndarray-view":
        big = np.full((2 * len(ivs), 4), -7.0)
        big[::2, 1:3] = ivs
        return big[::2, 1:3], form
    if form == "ndarray-fortran":
        return np.asfortranarray(np.array(ivs, dtype=np.float64)), form
    if form == "ndarray-i8":
        return np.array([[int(a), int(b)] for a, b in ivs], dtype=np.int64), form
    if form == "ndarray-i4":
        return np.array([[int(a), int(b)] for a, b in ivs], dtype=np.int32), form
    return [(int(a), int(b)) for a, b in ivs], form


def site_ids_arg(rng, ids):
    """The site-id list in another container (docs: 'a list of site IDs')."""
    forms = ["list", "list", "tuple", "ndarray-i4", "ndarray-i8", "ndarray-u4", "ndarray-i2", "list-of-np-ints"]
    if not ids or max(ids) < 128:
        forms.append("ndarray-i1")
    if ids and ids == list(range(ids[0], ids[0] + len(ids))):
        forms += ["range", "range"]
    if not ids:
        forms.append("range")
    form = rng.choice(forms)
    if form == "list":
        return list(ids), form
    if form == "tuple":
        return tuple(ids), form
    if form == "range":
        return (range(ids[0], ids[0] + len(ids)) if ids else range(0)), form
    if form == "list-of-np-ints":
        return [np.int64(j) for j in ids], form
    dt = {"ndarray-i4": np.int32, "ndarray-i8": np.int64, "ndarray-u4": np.uint32, "ndarray-i2": np.int16,
          "ndarray-i1": np.int8}[form]
    return np.array(ids, dtype=dt), form


def number_form(rng, v, kind):
    """A Python number as another numeric type with exactly the same value (kind: 'time' | 'int')."""
    if kind == "time":
        forms = ["float", "float", "np.float64"]
        if float(v).is_integer() and abs(v) < 2 ** 31:
            forms.append("int")
        if float(np.float32(v)) == v:
            forms.append("np.float32")
        f = rng.choice(forms)
        return {"float": float(v), "np.float64": np.float64(v), "int": int(v) if f == "int" else None,
                "np.float32": np.float32(v)}[f], f
    forms = ["int", "int", "np.int64", "np.int32"]
    if v >= 0:
        forms.append("np.uint32")
    f = rng.choice(forms)
    if f == "np.int32" and not -2 ** 31 <= v < 2 ** 31:
        f = "np.int64"
    return {"int": int(v), "np.int64": np.int64(v), "np.int32": np.int32(v) if f == "np.int32" else None,
            "np.uint32": np.uint32(v) if f == "np.uint32" else None}[f], f


# ------------------------------------------------------------------------------- exact boundaries


def nudge(rng, x, lo, hi):
    """x itself, or the next double below / above it (kept inside [lo, hi])."""
    how = rng.choice(["exact", "below", "above"])
    y = x if how == "exact" else math.nextafter(x, -math.inf if how == "below" else math.inf)
    if not lo <= y <= hi:
        return x, "exact"
    return y, how


def boundary_intervals(rng, m):
    """One or two intervals whose ends are a site position / edge end, or the double next to it."""
    anchors = sorted({s[0] for s in m.sites} | set(m.breakpoints()))
    k = rng.choice([2, 2, 4]) if len(anchors) >= 4 else 2
    pts = sorted(rng.sample(anchors, min(k, len(anchors) - len(anchors) % 2)))
    out, hows = [], set()
    for a in pts:
        y, how = nudge(rng, a, 0.0, m.L)
        out.append(y)
        hows.add(how)
    out = sorted(set(out))
    if len(out) % 2:
        out = out[:-1]
    ivs = [(out[i], out[i + 1]) for i in range(0, len(out), 2)]
    if ivs and ivs[0][0] == 0.0 and rng.random() < 0.3:
        ivs[0] = (-0.0, ivs[0][1])
        hows.add("minus-zero")
    return ivs, "nextafter:" + "+".join(sorted(hows))


# ------------------------------------------------------------------------------- schemas, reference sequence

JSON_SCHEMA = {"codec": "json"}
JSON_SCHEMA_2 = {"codec": "json", "type": "object", "properties": {"id": {"type": "integer"}}}
STRUCT_NODE_SCHEMA = {"codec": "struct", "type": "object",
                      "properties": {"a": {"type": "integer", "binaryFormat": "i", "default": 9}}}
MDCOL = {"nodes": 4, "edges": 4, "sites": 2, "mutations": 5, "individuals": 3, "populations": 0, "migrations": 6}


def json_md(rng):
    return rng.choice([b"", b"{}", b'{"id":%d}' % rng.randint(0, 99), b'{"id":7}'])


def decorate_schemas(rng, m):
    """Metadata schemas on a random subset of tables (row metadata rewritten so that it is valid for the schema),
    optionally a top-level schema + metadata and a reference sequence.  The model is then normalised through one
    build so that its schema strings are the canonical ones read back by from_tables."""
    node_kind = rng.choice(["json", "json", "struct", "none"])
    for name in MDCOL:
        kind = node_kind if name == "nodes" else rng.choice(["json", "none"])
        if kind == "none":
            continue
        c = MDCOL[name]
        rows = getattr(m, name)
        if kind == "struct":
            m.schemas[name] = json.dumps(STRUCT_NODE_SCHEMA)
            setattr(m, name, [r[:c] + (struct.pack("<i", rng.randint(-5, 5)),) + r[c + 1:] for r in rows])
        else:
            m.schemas[name] = json.dumps(rng.choice([JSON_SCHEMA, JSON_SCHEMA_2]))
            setattr(m, name, [r[:c] + (json_md(rng),) + r[c + 1:] for r in rows])
    if rng.random() < 0.5:
        m.metadata_schema = json.dumps(JSON_SCHEMA)
        m.metadata = rng.choice([b'{"top":[1,2]}', b"{}"])
    m.tags.add("metadata-schemas")
    m.tags.add("node-schema:" + node_kind)
    return m


def decorate_refseq(rng, m):
    m.refseq = {"data": rng.choice(["", "ACGT" * 5, "N" * int(m.L)]), "url": rng.choice(["", "file://ref.fa"]),
                "metadata": b"", "metadata_schema": ""}
    if not (m.refseq["data"] or m.refseq["url"]):
        m.refseq["data"] = "A"
    m.tags.add("reference-sequence")
    return m


def normalise(m):
    """Schema strings / reference sequence / top-level metadata exactly as from_tables reads them back."""
    if m.schemas or m.metadata_schema or m.refseq is not None:
        n = from_tables(tables_of(m))
        m.schemas, m.metadata_schema, m.refseq, m.metadata = n.schemas, n.metadata_schema, n.refseq, n.metadata
    return m


def blank_column(rng, m):
    """One whole ragged column empty while the others keep their content."""
    which = rng.choice(["sites.ancestral_state", "mutations.derived_state", "sites.metadata", "mutations.metadata",
                        "nodes.metadata", "edges.metadata", "both-states"])
    if which in ("sites.ancestral_state", "both-states"):
        m.sites = [(p, "", md) for p, _, md in m.sites]
    if which in ("mutations.derived_state", "both-states"):
        m.mutations = [(s, u, "", p, t, md) for s, u, _, p, t, md in m.mutations]
    if which == "sites.metadata":
        m.sites = [(p, a, b"") for p, a, _ in m.sites]
        m.mutations = [mu[:5] + (mu[5] or b"m",) for mu in m.mutations]
    if which == "mutations.metadata":
        m.mutations = [mu[:5] + (b"",) for mu in m.mutations]
        m.sites = [(p, a, md or b"s") for p, a, md in m.sites]
    if which == "nodes.metadata":
        m.nodes = [n[:4] + (b"",) for n in m.nodes]
    if which == "edges.metadata":
        m.edges = [e[:4] + (b"",) for e in m.edges]
    m.tags.add("blank-column:" + which)
    return m


# ------------------------------------------------------------------------------- unsorted tables


def shuffled_rows(rng, m):
    """The same collection with the rows of edges, sites, mutations and migrations in random order (site and
    mutation-parent references remapped).  Not a valid tree sequence any more; only for operations documented to
    have no sorting requirements."""
    o = m.copy()
    rng.shuffle(o.edges)
    rng.shuffle(o.migrations)
    sperm = list(range(len(m.sites)))
    rng.shuffle(sperm)  # new position j holds old site sperm[j]
    smap = {old: new for new, old in enumerate(sperm)}
    o.sites = [m.sites[old] for old in sperm]
    mperm = list(range(len(m.mutations)))
    rng.shuffle(mperm)
    mmap = {old: new for new, old in enumerate(mperm)}
    o.mutations = []
    for old in mperm:
        s, u, d, p, t, md = m.mutations[old]
        o.mutations.append((smap[s], u, d, mmap[p] if p != NULL else NULL, t, md))
    return o


# ------------------------------------------------------------------------------- large instances


def build_big(rng):
    """>= 256 children below one parent, several hundred sites, ragged columns beyond 64 KiB (one row alone beyond
    32 KiB), site ids beyond 255, hundreds of intervals' worth of coordinates.  Valid and sorted."""
    L = 1024.0
    n = rng.choice([256, 257, 300, 400])
    m = RowModel(L)
    m.populations = [(b"pop0",), (b"",)]
    # leaves 0..n-1 (samples, t=0); a = n (t=1), b = n+1 (t=2), root = n+2 (t=3); leaf n+3 is a non-sample
    m.nodes = [(NODE_IS_SAMPLE, 0.0, rng.choice([0, 1, NULL]), NULL, bytes([65 + u % 26]) * (u % 5)) for u in range(n)]
    a, b, root, dead = n, n + 1, n + 2, n + 3
    m.nodes += [(0, 1.0, 0, NULL, b"a"), (0, 2.0, NULL, NULL, b""), (0, 3.0, 1, NULL, b"root"), (0, 0.5, NULL, NULL, b"")]
    cut = float(rng.choice([256, 512, 700]))
    edges = []
    half = n // 2
    for u in range(n):
        md = b"e%d" % u if u % 3 == 0 else b""
        if u < half:
            # left part: star below root; right part: below a, which hangs below b below root
            edges.append((0.0, cut, root, u, md))
            edges.append((cut, L, a, u, md))
        else:
            edges.append((0.0, L, root, u, md))
    edges.append((cut, L, b, a, b"ab"))
    edges.append((cut, L, root, b, b""))
    edges.append((0.0, cut / 2, root, dead, b"dead"))
    m.edges = sorted(edges, key=sort_edges_key(m))
    ns = rng.choice([300, 420, 520])
    pos = sorted(rng.sample(range(int(L)), ns))
    if rng.random() < 0.5:
        pos[0] = 0
    huge = rng.randrange(ns)
    sites, muts = [], []
    for j, p in enumerate(pos):
        md = bytes([j % 251]) * rng.choice([0, 120, 200, 260])
        if j == huge:
            md = b"\x01\x02\x03\x04" * 10000  # one row of 40000 bytes
        anc = rng.choice(["A", "C", "", "ACGT" * 40])
        sites.append((float(p), anc, md))
        k = rng.choice([0, 1, 1, 2])
        lst = []
        for _ in range(k):
            u = rng.choice([rng.randrange(n), rng.randrange(n), a, b])
            if u == a and p < cut:
                u = 0
            if u == b and p < cut:
                u = 1
            lst.append(u)
        lst.sort(key=lambda u: -m.time(u))
        for u in lst:
            muts.append((j, u, rng.choice(["T", "G", "", "TT" * 30]), NULL, None, bytes([u % 256]) * rng.choice([0, 3, 90])))
    m.sites, m.mutations = sites, muts
    par = mutation_parents(m)
    m.mutations = [mu[:3] + (par[k],) + mu[4:] for k, mu in enumerate(m.mutations)]
    m.tags.add("big")
    m.tags.add(f"big:children>={256}")
    return m


def few_sites(rng, m, keep=10):
    """Copy of the model with only `keep` randomly chosen sites (ids remapped)."""
    o = m.copy()
    chosen = sorted(rng.sample(range(len(m.sites)), min(keep, len(m.sites))))
    smap = {old: new for new, old in enumerate(chosen)}
    o.sites = [m.sites[j] for j in chosen]
    mmap, rows = {}, []
    for k, mu in enumerate(m.mutations):
        if mu[0] in smap:
            mmap[k] = len(rows)
            rows.append(mu)
    o.mutations = [(smap[s], u, d, mmap.get(p, NULL) if p != NULL else NULL, t, md) for s, u, d, p, t, md in rows]
    return o


# ------------------------------------------------------------------------------- extend_haplotypes motifs


def build_extend_motif(rng):
    """The situation extend_haplotypes acts on, built directly: on one side of a breakpoint x the path from p down
    to the sample c runs through a chain of 1-3 intermediate nodes, on the other side p is the parent of c directly
    (or through a part of the chain).  Intermediate nodes are samples with probability 0.35: those are isolated samples
    on the other side and must NOT be extended into it.  1-3 such motifs below a common ancestor; sites and known-time
    mutations are added by the caller."""
    L = rng.choice([8.0, 16.0, 100.0])
    m = RowModel(L)
    nodes, edges = [], []

    def add(flags, t):
        nodes.append((flags, t, NULL, NULL, b""))
        return len(nodes) - 1

    top = add(rng.choice([0, 0, NODE_IS_SAMPLE]), 10.0)
    sample_in_chain = False
    for _ in range(rng.randint(1, 3)):
        c = add(NODE_IS_SAMPLE, 0.0)
        s = add(NODE_IS_SAMPLE, 0.0)
        p = add(0, 6.0 + rng.randint(0, 3))
        times = sorted(rng.sample([1.0, 2.0, 3.0, 4.0, 5.0], rng.randint(1, 3)))
        chain = []
        for t in times:
            smp = rng.random() < 0.35
            sample_in_chain |= smp
            chain.append(add(NODE_IS_SAMPLE if smp else 0, t))
        x = rng.choice([k * L / 8 for k in range(1, 8)])
        A, B = ((0.0, x), (x, L)) if rng.random() < 0.5 else ((x, L), (0.0, x))
        path = [c] + chain + [p]
        for a, b in zip(path[:-1], path[1:]):
            edges.append((A[0], A[1], b, a, b""))
        part = [u for u in chain if rng.random() < 0.25]
        path = [c] + part + [p]
        for a, b in zip(path[:-1], path[1:]):
            edges.append((B[0], B[1], b, a, b""))
        edges.append((0.0, L, p, s, b""))
        edges.append((0.0, L, top, p, b""))
    m.nodes = nodes
    m.edges = sorted(edges, key=sort_edges_key(m))
    m.tags.add("extend-motif")
    if sample_in_chain:
        m.tags.add("extend-motif:sample-in-chain")
    return m
