"""C04 — simplify preserves the sample genealogy and the sample genotypes exactly.

Oracle (written from the simplify docstrings, per position, no segment logic):
for every elementary interval of input U output breakpoints the expected parent map over *input*
node ids is derived from the input forest at the mid-point and the option set, pushed through the
returned node map and compared with the output forest read back through raw columns.

EITHER zones (documented nowhere, therefore not asserted):
  * row order of output edges / non-sample nodes, metadata of output edges (simplify writes new edges);
  * order in which surviving populations / individuals are renumbered (only the induced id map is
    checked to be a consistent injection onto all output rows);
  * which library error is raised for a refused call (any tskit LibraryError / ValueError is accepted);
  * reduce_to_site_topology: topology is only compared at site positions; with filter_nodes the retained
    node set is bounded between "kept at a site position" and "kept somewhere" (keep_input_roots can leave
    a root whose only root-edge spans no site);
  * reduce_to_site_topology + filter_sites: a second simplify sees fewer site positions when the first one
    removed a site, so row-level idempotence is not claimed then (the second result is still checked
    semantically); when every input site position survives, row-level idempotence IS asserted;
  * keep_input_roots: the extra root edges are flushed separately, so adjacent (parent, child) edges may
    stay unsquashed when the parent is one of those extra input roots; squashing is asserted for every other
    parent;
  * a refused call (bad samples, both unary options, migrations, edge metadata): whether the TableCollection
    is left untouched is not documented and not asserted;
  * which exception class a malformed ``samples`` argument raises (TypeError / ValueError / OverflowError /
    LibraryError are all accepted) - only "does not silently simplify something else" is asserted;
  * whether TableCollection.simplify leaves an index behind (it drops it today); only "the tree sequence built
    from the result shows the trees of the result rows" is asserted.

Entry points and argument forms driven (AUDIT-C04.md): TableCollection.simplify on a fresh / indexed / copied /
pickled / file-loaded collection and on the SAME object twice, TreeSequence.simplify on a fresh / file-loaded
tree sequence, the low-level _tskit.TableCollection.simplify; samples as list / tuple / int32 / int64 / uint16 /
strided array / list of numpy scalars / positional / keyword / explicit flagged list instead of None; options
spelled out, omitted or None when they have their documented default; record_provenance True / False / omitted;
deprecated filter_zero_mutation_sites.  The trees of the returned tree sequence (not only its tables) are compared
with the output rows.  Inputs: lib.gen forest walks and msprime, plus (lib/props/c04_gen.py) forced large
instances around the simplifier's buffer thresholds, unordered individual parents, metadata schemas / top-level
metadata / reference sequence, > 64 KiB ragged entries.
"""
import copy
import itertools
import json
import os
import pickle
import tempfile
import warnings

import numpy as np
import tskit

from lib import gen
from lib.harness import case_rng
from lib.model import NODE_IS_SAMPLE, NULL, RowModel, allele_at, forest, mutation_parents
from lib.props import c04_gen
from lib.tsk import from_tables
from lib.tsk import to_tables as _to_tables_plain

ID = "C04"

LIBERR = (tskit.LibraryError, ValueError)
ARGERR = (tskit.LibraryError, ValueError, TypeError, OverflowError)

BOOL_OPTS = ("keep_input_roots", "filter_nodes", "filter_sites", "filter_individuals",
             "filter_populations", "update_sample_flags", "reduce_to_site_topology")
# documented defaults of TableCollection.simplify / TreeSequence.simplify
DEFAULTS = {"keep_input_roots": False, "filter_nodes": True, "filter_sites": True, "filter_individuals": True,
            "filter_populations": True, "update_sample_flags": True, "reduce_to_site_topology": False}
# "(Default: None, treated as True)"
NONE_MEANS_DEFAULT = ("filter_nodes", "filter_sites", "filter_individuals", "filter_populations",
                      "update_sample_flags")
# defaults of the low-level _tskit.TableCollection.simplify (its filter_* default to False)
LL_DEFAULTS = {"keep_input_roots": False, "filter_nodes": True, "filter_sites": False, "filter_individuals": False,
               "filter_populations": False, "update_sample_flags": True, "reduce_to_site_topology": False,
               "keep_unary": False, "keep_unary_in_individuals": False}


def all_option_sets():
    out = []
    for unary in ("none", "ku", "kuii"):
        for bits in itertools.product((False, True), repeat=len(BOOL_OPTS)):
            o = dict(zip(BOOL_OPTS, bits))
            o["unary"] = unary
            out.append(o)
    return out


ALL_OPTS = all_option_sets()  # 384
DFLT = {"unary": "none", "keep_input_roots": False, "filter_nodes": True, "filter_sites": True,
        "filter_individuals": True, "filter_populations": True, "update_sample_flags": True,
        "reduce_to_site_topology": False}


def cases(tier, seed):
    n = 40000 if tier == "quick" else 4000000
    for k in range(n):
        r = k % 20
        if r == 17:
            yield {"gen": "errors", "k": k}
        elif r in (5, 11):
            yield {"gen": "msprime", "k": k}
        elif r == 3:
            yield {"gen": "big", "k": k}  # forced large / structurally extreme instances (c04_gen)
        elif r == 19 and tier == "thorough":
            yield {"gen": "walk-all384", "k": k}
        else:
            yield {"gen": "walk", "k": k}


# ------------------------------------------------------------------------------- inputs


def to_tables(m, with_index=False):
    """lib.tsk.to_tables, except that table schemas, the top-level schema and the reference sequence are applied
    AFTER the rows were written: the row bytes are opaque to simplify and are never decoded here."""
    if not (m.schemas or m.metadata_schema or m.refseq):
        return _to_tables_plain(m, with_index)
    p = copy.copy(m)
    p.schemas, p.metadata_schema, p.metadata, p.refseq = {}, "", b"", None
    tc = _to_tables_plain(p, False)
    if m.metadata:
        tc.metadata = m.metadata
    for name, sch in m.schemas.items():
        getattr(tc, name).metadata_schema = tskit.MetadataSchema(json.loads(sch))
    if m.metadata_schema:
        tc.metadata_schema = tskit.MetadataSchema(json.loads(m.metadata_schema))
    if m.refseq is not None:
        rs = tc.reference_sequence
        if m.refseq.get("metadata"):
            rs.metadata = m.refseq["metadata"]
        if m.refseq.get("metadata_schema"):
            rs.metadata_schema = tskit.MetadataSchema(json.loads(m.refseq["metadata_schema"]))
        if m.refseq.get("data"):
            rs.data = m.refseq["data"]
        if m.refseq.get("url"):
            rs.url = m.refseq["url"]
    if with_index:
        tc.build_index()
    return tc


def top_level(tc):
    """Everything simplify has no business touching, as the raw accessors report it."""
    d = {"metadata": tc.metadata_bytes, "metadata_schema": repr(tc.metadata_schema), "time_units": tc.time_units,
         "sequence_length": tc.sequence_length}
    for name in ("nodes", "edges", "sites", "mutations", "individuals", "populations", "migrations"):
        d["schema:" + name] = repr(getattr(tc, name).metadata_schema)
    if tc.has_reference_sequence():
        rs = tc.reference_sequence
        d["refseq"] = (rs.data, rs.url, rs.metadata_bytes, repr(rs.metadata_schema))
    else:
        d["refseq"] = None
    return d


def build(case, rng):
    g = case["gen"]
    if g == "msprime":
        return build_msprime(rng)
    if g == "big":
        return build_big(rng)
    big = rng.random() < 0.12
    m = gen.gen_full(rng, max_nodes=18 if big else 9, max_bp=8 if big else 4, max_sites=7,
                     pops=rng.random() < 0.7, meta=False, discrete=rng.random() < 0.3)
    if rng.random() < 0.7:
        # simplify refuses edges with metadata (TSK_ERR_CANT_PROCESS_EDGES_WITH_METADATA), so none here
        gen.decorate_meta(rng, m, tables=("nodes", "sites", "mutations", "individuals", "populations"))
    if rng.random() < 0.3:
        m.provenances = [("2020-01-01T00:00:00", '{"x": 1}')]
    if rng.random() < 0.2:
        m.metadata = b"top-level\x00meta"
        m.time_units = "generations"
    decorate_extra(case, rng, m)
    return m


def decorate_extra(case, rng, m):
    if rng.random() < 0.4:
        c04_gen.unordered_individual_parents(rng, m)
    if rng.random() < 0.3:
        c04_gen.schemas_and_refseq(rng, m)
    if case.get("k", 0) >= 2 and rng.random() < 0.015:
        c04_gen.blob(rng, m)


def build_big(rng):
    shape = rng.choice(c04_gen.SHAPES)
    if shape == "msprime":
        m = build_msprime(rng, large=True)
    else:
        m = {"stars": c04_gen.stars, "breakpoints": c04_gen.breakpoints, "chain": c04_gen.chain,
             "wide-walk": c04_gen.wide_walk}[shape](rng)
    if rng.random() < 0.4:
        c04_gen.unordered_individual_parents(rng, m)
    if rng.random() < 0.3:
        c04_gen.schemas_and_refseq(rng, m)
    if rng.random() < 0.25:
        c04_gen.blob(rng, m)
    return m


def build_msprime(rng, large=False):
    import msprime

    if large:
        n = rng.randint(30, 70)
        kw = dict(sequence_length=rng.choice([100, 1000]), recombination_rate=None, population_size=rng.choice([1, 10]),
                  record_full_arg=rng.random() < 0.3)
        kw["recombination_rate"] = rng.choice([0.5, 1.5]) / kw["sequence_length"] / kw["population_size"]
        mrate = rng.choice([0.0, 0.3, 1.0]) / kw["sequence_length"] / kw["population_size"]
    else:
        n = rng.randint(2, 6)
        kw = dict(sequence_length=rng.choice([10, 20]), recombination_rate=rng.choice([0.0, 0.05, 0.2]),
                  population_size=rng.choice([1, 10]))
    ploidy = rng.choice([1, 2])
    seed = rng.randint(1, 2 ** 31 - 1)
    if not large:
        kw["record_full_arg"] = rng.random() < 0.3
    dg = rng.random() < 0.7
    ts = msprime.sim_ancestry(n, ploidy=ploidy, random_seed=seed, discrete_genome=dg, **kw)
    if not large:
        mrate = rng.choice([0.0, 0.02, 0.1])
    ts = msprime.sim_mutations(ts, rate=mrate, random_seed=rng.randint(1, 2 ** 31 - 1),
                               discrete_genome=rng.random() < 0.7)
    tc = ts.dump_tables()
    tc.provenances.clear()
    m = from_tables(tc)
    m.schemas = {}
    m.metadata_schema = ""
    m.metadata = b""
    m.refseq = None
    m.tags.add("msprime")
    if large:
        m.tags.add("big:msprime")
    if rng.random() < 0.5:
        gen.decorate_meta(rng, m, tables=("nodes", "sites", "mutations", "individuals", "populations"))
    return m


def choose_samples(rng, m):
    n = m.num_nodes
    flagged = m.samples()
    r = rng.random()
    if r < 0.15:
        return None, "none-arg"
    if r < 0.30 and flagged:
        s = list(flagged)
        rng.shuffle(s)
        return s, "all-flagged-shuffled"
    if r < 0.50 and flagged:
        s = rng.sample(flagged, rng.randint(1, len(flagged)))
        return s, "flagged-subset"
    if r < 0.80 and n:
        s = rng.sample(range(n), rng.randint(1, min(n, 6)))
        return s, "any-nodes"
    if r < 0.87 and n:
        return [rng.randrange(n)], "single"
    if r < 0.92:
        return [], "empty"
    s = list(range(n))
    rng.shuffle(s)
    return s, "all-nodes"


def choose_samples_big(rng, m):
    n = m.num_nodes
    flagged = m.samples()
    r = rng.random()
    if r < 0.3 or not flagged:
        return None, "none-arg"
    if r < 0.55:
        s = list(flagged)
        rng.shuffle(s)
        return s, "all-flagged-shuffled"
    if r < 0.75:
        s = rng.sample(flagged, rng.randint(max(1, len(flagged) // 2), len(flagged)))
        return s, "flagged-subset"
    if r < 0.9:
        s = rng.sample(range(n), rng.randint(1, min(n, 60)))
        return s, "any-nodes"
    s = list(range(n))
    rng.shuffle(s)
    return s, "all-nodes"


# ------------------------------------------------------------------------------- reference


def expected_parent_map(mi, fr, S, opts):
    """Induced genealogy of the chosen samples S at one position, over input node ids.

    A = nodes with a chosen sample at or below them.  A node of A is retained there when it is a chosen
    sample, or at least two of its children are in A (a coalescence of sample lineages), or it has exactly
    one child in A and the unary option in force allows it.  Each retained node hangs from its nearest
    retained ancestor; keep_input_roots additionally hangs each parentless retained node from the root of
    the input tree it sits in.

    Returns (parent, kept, A, root_extra, unary) where unary = (#unary nodes of A with an individual,
    #unary nodes of A without one) - only used to report how discriminating the input was."""
    A = set()
    for s in S:
        if s in A:
            continue
        A.update(fr.path_up(s))
    kept = set()
    un_ind = un_noind = 0
    for u in A:
        if u in S:
            kept.add(u)
            continue
        kc = sum(1 for c in fr.kids(u) if c in A)
        if kc >= 2:
            kept.add(u)
        elif kc == 1:
            has_ind = mi.nodes[u][3] != NULL
            if has_ind:
                un_ind += 1
            else:
                un_noind += 1
            if opts["unary"] == "ku" or (opts["unary"] == "kuii" and has_ind):
                kept.add(u)
    parent = {}
    for v in kept:
        p = fr.par(v)
        while p != NULL and p not in kept:
            p = fr.par(p)
        if p != NULL:
            parent[v] = p
    root_extra = set()
    if opts["keep_input_roots"]:
        for v in kept:
            if v not in parent:
                r = fr.root_of(v)
                if r != v:
                    parent[v] = r
                    root_extra.add(r)
    return parent, kept, A, root_extra, (un_ind, un_noind)


def expected_mutation_node(fr, u, kept, A, root_extra):
    """Input-id node that must carry a mutation sitting on input node u (u in A)."""
    if u in kept or u in root_extra:
        return u
    v = u
    while v not in kept:
        nxt = [c for c in fr.kids(v) if c in A]
        if len(nxt) != 1:
            return None  # cannot happen for a node of A that is not retained
        v = nxt[0]
    return v


# ------------------------------------------------------------------------------- the call


def simplify_kwargs(opts, rng=None):
    """Keyword arguments for the high-level methods.  With an rng, options that have their documented default
    value are sometimes omitted or (where the docs say "None, treated as True") passed as None."""
    kw = {}
    for k in BOOL_OPTS:
        v = opts[k]
        if rng is not None and v == DEFAULTS[k]:
            r = rng.random()
            if r < 0.3:
                continue
            if r < 0.45 and k in NONE_MEANS_DEFAULT:
                kw[k] = None
                continue
        kw[k] = v
    spell = rng is not None and rng.random() < 0.3
    if opts["unary"] == "ku":
        kw["keep_unary"] = True
        if spell:
            kw["keep_unary_in_individuals"] = rng.choice([None, False])
    elif opts["unary"] == "kuii":
        kw["keep_unary_in_individuals"] = True
        if spell:
            kw["keep_unary"] = False
    elif spell:
        kw["keep_unary"] = False
        kw["keep_unary_in_individuals"] = rng.choice([None, False])
    return kw


def ll_kwargs(opts, rng):
    full = {k: opts[k] for k in BOOL_OPTS}
    full["keep_unary"] = opts["unary"] == "ku"
    full["keep_unary_in_individuals"] = opts["unary"] == "kuii"
    kw = {}
    for k, v in full.items():
        if v == LL_DEFAULTS[k] and rng.random() < 0.4:
            continue
        kw[k] = rng.choice([v, int(v)])
    return kw


def opt_key(opts):
    s = {"none": "default", "ku": "keep_unary", "kuii": "keep_unary_in_individuals"}[opts["unary"]]
    if opts["keep_input_roots"]:
        s += "+keep_input_roots"
    if opts["reduce_to_site_topology"]:
        s += "+reduce"
    if not opts["filter_nodes"]:
        s += "+nofilter_nodes"
    return s


def sample_arg(rng, samples, mi):
    """The same sample list in one of the accepted argument forms."""
    if samples is None:
        if rng.random() < 0.7:
            return None, "None"
        # "If not specified or None, use all nodes marked with the IS_SAMPLE flag"
        return np.array(mi.samples(), dtype=np.int32), "explicit-flagged"
    f = rng.choice(["list", "list", "list", "int32", "int32", "int64", "tuple", "uint16", "npint-list", "strided"])
    if f == "uint16" and samples and max(samples) >= 65536:
        f = "int64"
    if f == "list":
        return list(samples), f
    if f == "tuple":
        return tuple(samples), f
    if f == "int32":
        return np.array(samples, dtype=np.int32), f
    if f == "int64":
        return np.array(samples, dtype=np.int64), f
    if f == "uint16":
        return np.array(samples, dtype=np.uint16), f
    if f == "npint-list":
        return [np.int64(x) if j % 2 else np.int32(x) for j, x in enumerate(samples)], f
    a = np.full(2 * len(samples), -7, dtype=np.int32)
    a[::2] = samples
    return a[::2], f


_TMP = None


def _tmp_path():
    global _TMP
    if _TMP is None:
        _TMP = tempfile.mkdtemp(prefix="verif-c04-")
        import atexit
        import shutil
        atexit.register(shutil.rmtree, _TMP, True)
    return os.path.join(_TMP, f"x-{os.getpid()}.trees")


TABLE_FORMS = ("fresh", "fresh", "fresh", "indexed", "indexed", "copy", "pickle", "loaded", "ll", "ll")
TS_FORMS = ("fresh", "fresh", "fresh", "loaded")


class Call:
    """Result of one real simplify call plus everything needed to describe and re-check it."""


def call_simplify(mi, samples, opts, api, rng, record_provenance=False, reuse=None, plain=False):
    """Run the real code on model mi.  api: "tables" | "ts".  record_provenance: True | False | None (= omitted,
    documented default True).  reuse: an existing TableCollection holding mi to be simplified IN PLACE again.
    plain: list samples, every option spelled out, fresh object (used where the form must not vary)."""
    c = Call()
    warnings.simplefilter("ignore", FutureWarning)
    form = "fresh"
    if plain:
        kw = simplify_kwargs(opts)
        arg, aform = (samples, "None" if samples is None else "list")
    else:
        kw = simplify_kwargs(opts, rng)
        arg, aform = sample_arg(rng, samples, mi)
        form = rng.choice(TABLE_FORMS if api == "tables" else TS_FORMS)
    if reuse is not None:
        form = "reused"
    # the deprecated alias filter_zero_mutation_sites must behave exactly like filter_sites on both entry points
    # (chosen deterministically from the inputs, plus a random share)
    n_in = len(mi.edges) + len(mi.sites) + (0 if samples is None else len(samples))
    if form != "ll" and kw.get("filter_sites") is not None and (
            n_in % 5 == 0 or (not plain and rng.random() < 0.08)):
        kw["filter_zero_mutation_sites"] = kw.pop("filter_sites")
        aform += "+alias"
    if record_provenance is not None:
        kw["record_provenance"] = record_provenance
    by_keyword = (not plain) and rng.random() < 0.3
    c.form, c.aform, c.kw, c.api = form, aform, kw, api
    c.ts_in = c.ts_out = None

    if reuse is not None:
        tc = reuse
    elif form == "indexed":
        tc = to_tables(mi, with_index=True)
    else:
        tc = to_tables(mi)
    c.top_in = top_level(tc)
    if api == "tables":
        if form == "copy":
            tc = tc.copy()
        elif form == "pickle":
            tc = pickle.loads(pickle.dumps(tc))
        elif form == "loaded":
            path = _tmp_path()
            tc.dump(path)
            tc = tskit.TableCollection.load(path)
            os.unlink(path)
        if form == "ll":
            # low-level entry point: needs an explicit id array and has its own (False) filter defaults
            ids = mi.samples() if samples is None else list(samples)
            c.kw = ll_kwargs(opts, rng)
            nm = tc._ll_tables.simplify(np.array(ids, dtype=np.int32), **c.kw)
            c.prov_expected = 0
        else:
            nm = tc.simplify(samples=arg, **kw) if by_keyword else tc.simplify(arg, **kw)
            c.prov_expected = 0 if record_provenance is False else 1
        out = tc
    else:
        ts = tc.tree_sequence()
        if form == "loaded":
            path = _tmp_path()
            ts.dump(path)
            ts = tskit.load(path)
            os.unlink(path)
        if by_keyword:
            ts2, nm = ts.simplify(samples=arg, map_nodes=True, **kw)
        else:
            ts2, nm = ts.simplify(arg, map_nodes=True, **kw)
        c.prov_expected = 0 if record_provenance is False else 1
        c.ts_in, c.ts_out = ts, ts2
        out = ts2.dump_tables()
    c.mo, c.nm, c.out = from_tables(out), [int(x) for x in nm], out
    return c


def describe(c):
    return f"api={c.api}/{c.form} samples-form={c.aform} kwargs={c.kw}"


# ------------------------------------------------------------------------------- the monitor


def check_call(ctx, mi, samples_arg, opts, api, rng, record_provenance=False, idem=True):
    n = mi.num_nodes
    S_list = list(mi.samples()) if samples_arg is None else list(samples_arg)
    S = set(S_list)
    okey = opt_key(opts)
    state = {"what": f"api={api} samples={samples_arg if n < 40 else str(samples_arg)[:200]} opts={dict(opts)}"}

    def bad(key, msg):
        detail = {"model": mi.to_json() if n <= 64 else {"tags": sorted(mi.tags), "num_nodes": n},
                  "samples": samples_arg, "opts": opts, "api": api}
        ctx.violation(key, f"{msg} [{state['what']}]", detail)

    try:
        c = call_simplify(mi, samples_arg, opts, api, rng, record_provenance)
    except LIBERR as e:
        bad("simplify/raised-on-valid-input", f"simplify raised {type(e).__name__}: {e}")
        return None
    mo, nm, out_tc = c.mo, c.nm, c.out
    state["what"] += " " + describe(c)
    ctx.count("simplify-calls")
    ctx.count(f"api:{api}")
    ctx.feature(f"form:{api}/{c.form}")
    for part in c.aform.split("+"):
        ctx.feature("samples-form:" + part)
    if any(v is None for k, v in c.kw.items() if k != "record_provenance"):
        ctx.feature("kw:None-for-default")
    if c.form != "ll" and any(k not in c.kw for k in BOOL_OPTS if k != "filter_sites"):
        ctx.feature("kw:default-omitted")
    if record_provenance is None:
        ctx.feature("kw:record_provenance-omitted")

    # ---- validity of the result, and the TREES of the result (not only its rows)
    ctx.count("validity")
    try:
        ts_out = c.ts_out if c.ts_out is not None else out_tc.tree_sequence()
    except LIBERR as e:
        bad("validity/output-rejected", f"output of simplify is not accepted by tree_sequence(): {e}")
        return None
    if mo.L != mi.L:
        bad("validity/sequence-length", f"sequence_length {mo.L} expected {mi.L}")
    check_trees(ctx, bad, ts_out, mo)

    # ---- node map shape
    ctx.count("node-map")
    if len(nm) != n:
        bad("node-map/length", f"node_map has {len(nm)} entries for {n} input nodes")
        return None
    n_out = len(mo.nodes)
    img = [x for x in nm if x != NULL]
    if sorted(img) != list(range(n_out)):
        bad("node-map/not-bijection", f"node_map {nm} is not a bijection onto the {n_out} output nodes")
        return None
    if opts["filter_nodes"]:
        ctx.count("node-map:samples-first")
        got = [nm[s] for s in S_list]
        if got != list(range(len(S_list))):
            bad("node-map/samples-not-first", f"node_map[samples]={got}, expected 0..{len(S_list) - 1}")
        if S_list != sorted(S_list):
            ctx.feature("disc:sample-order-matters")
    else:
        ctx.count("node-map:identity")
        if nm != list(range(n)):
            bad("node-map/not-identity", f"filter_nodes=False but node_map={nm}")
            return None

    # ---- genealogy per position
    reduce = opts["reduce_to_site_topology"]
    ibps = mi.breakpoints()
    if reduce:
        positions = [s[0] for s in mi.sites]
    else:
        bps = sorted(set(ibps) | set(mo.breakpoints()))
        positions = [(a + b) / 2 for a, b in zip(bps[:-1], bps[1:])]
    kept_any = set(S)
    rex_any = set()
    un_ind = un_noind = 0
    gen_ok = True
    for x in positions:
        fr = forest(mi, x)
        par, kept, A, rex, un = expected_parent_map(mi, fr, S, opts)
        kept_any.update(par.keys())
        kept_any.update(par.values())
        rex_any |= rex
        un_ind += un[0]
        un_noind += un[1]
        ctx.count("genealogy")
        unmapped = [u for u in set(par) | set(par.values()) if nm[u] == NULL]
        if unmapped:
            bad(f"genealogy/{okey}/node-dropped",
                f"at x={x} nodes {sorted(unmapped)} belong to the induced genealogy but node_map gives NULL; "
                f"expected parent map {par if len(par) < 40 else '...'}")
            gen_ok = False
            continue
        exp = {nm[c]: nm[p] for c, p in par.items()}
        got = mo.forest_at(x)
        if got != exp:
            inv = {v: u for u, v in enumerate(nm) if v != NULL}
            got_in = {inv.get(c, f"out{c}"): inv.get(p, f"out{p}") for c, p in got.items()}
            if len(par) > 40:  # big instances: only the differing links
                keys = set(got_in) | set(par)
                got_in = {k: got_in.get(k) for k in keys if got_in.get(k) != par.get(k)}
                par = {k: par.get(k) for k in got_in}
            bad(f"genealogy/{okey}",
                f"at x={x} output forest (input ids) {got_in} differs from induced genealogy {par}; "
                f"node_map={nm if n < 40 else '...'}")
            gen_ok = False
    # how discriminating was this call?
    if un_ind + un_noind:
        ctx.feature("disc:unary-present")
        if opts["unary"] == "kuii" and un_ind and un_noind:
            ctx.feature("disc:kuii-keeps-some-drops-some")
        elif opts["unary"] == "kuii" and un_ind:
            ctx.feature("disc:kuii-keeps")
        elif opts["unary"] == "kuii":
            ctx.feature("disc:kuii-drops")
    if rex_any:
        ctx.feature("disc:input-root-above-mrca")
    if reduce:
        ctx.count("reduce:trees-have-sites")
        obps = mo.breakpoints()
        if not mi.sites:
            if mo.edges:
                bad("reduce/edges-without-sites", f"no sites but {len(mo.edges)} output edges")
        else:
            for a, b in zip(obps[:-1], obps[1:]):
                if not any(a <= s[0] < b for s in mi.sites):
                    bad("reduce/tree-without-site", f"output tree [{a},{b}) contains no site; sites at "
                        f"{[s[0] for s in mi.sites]}")
            if any(not any(a <= s[0] < b for s in mi.sites) for a, b in zip(ibps[:-1], ibps[1:])):
                ctx.feature("disc:reduce-siteless-input-tree")
        # the full (non-reduced) retained set bounds the node set from above
        upper = set(S)
        for a, b in zip(ibps[:-1], ibps[1:]):
            par, _, _, rex, _ = expected_parent_map(mi, forest(mi, (a + b) / 2), S, opts)
            upper.update(par.keys())
            upper.update(par.values())
            rex_any |= rex
    else:
        upper = kept_any

    # ---- retained node set and node rows
    unreferenced = False
    if opts["filter_nodes"]:
        ctx.count("node-set")
        retained = {u for u in range(n) if nm[u] != NULL}
        missing = kept_any - retained
        extra = retained - upper
        if missing and gen_ok:
            bad(f"node-set/{okey}/missing", f"nodes {sorted(missing)} must be retained, node_map={nm}")
        if extra:
            bad(f"node-set/{okey}/extra-node-kept",
                f"nodes {sorted(extra)} are retained but are neither chosen samples nor part of the induced "
                f"genealogy anywhere; node_map={nm}")
        # "filter_nodes: remove any nodes that are not referenced by edges after simplification"
        used = {e[2] for e in mo.edges} | {e[3] for e in mo.edges}
        loose = sorted(u for u in retained if u not in S and nm[u] not in used)
        if loose:
            unreferenced = True
            how = "reduce_to_site_topology+keep_input_roots" if (reduce and opts["keep_input_roots"]) else okey
            bad(f"node-set/unreferenced-node-kept/{how}",
                f"filter_nodes=True but input nodes {loose} (output {[nm[u] for u in loose]}) are kept although no "
                f"output edge references them and they are not chosen samples; output edges {mo.edges[:50]}")
    # population / individual id maps derived from the node rows
    pop_map, ind_map = {}, {}
    ctx.count("node-rows")
    if S != set(mi.samples()):
        ctx.feature("disc:flags-must-change" if opts["update_sample_flags"] else "disc:flags-must-stay")
    for u in range(n):
        v = nm[u]
        if v == NULL:
            continue
        fi, ti, pi, ii, mdi = mi.nodes[u]
        fo, to_, po, io, mdo = mo.nodes[v]
        fexp = fi
        if opts["update_sample_flags"]:
            fexp = (fi & ~NODE_IS_SAMPLE) | (NODE_IS_SAMPLE if u in S else 0)
        if fo != fexp:
            bad("node-row/flags", f"node {u}->{v} flags {fo} expected {fexp} (input {fi}, chosen={u in S}, "
                f"update_sample_flags={opts['update_sample_flags']})")
        if to_ != ti:
            bad("node-row/time", f"node {u}->{v} time {to_} expected {ti}")
        if mdo != mdi:
            bad("node-row/metadata", f"node {u}->{v} metadata {mdo[:40]!r} expected {mdi[:40]!r}")
        for name, a, b, mp in (("population", pi, po, pop_map), ("individual", ii, io, ind_map)):
            if (a == NULL) != (b == NULL):
                bad(f"node-row/{name}", f"node {u}->{v} {name} {b} but input {a}")
            elif a != NULL:
                if mp.setdefault(a, b) != b:
                    bad(f"node-row/{name}", f"node {u}->{v}: input {name} {a} mapped to both {mp[a]} and {b}")
    if len(pop_map) < len(mi.populations):
        ctx.feature("disc:population-unreferenced:" + ("filtered" if opts["filter_populations"] else "kept"))
    if len(ind_map) < len(mi.individuals):
        ctx.feature("disc:individual-unreferenced:" + ("filtered" if opts["filter_individuals"] else "kept"))
    check_ref_table(ctx, bad, "populations", opts["filter_populations"], pop_map,
                    [p for p in mi.populations], [p for p in mo.populations])
    # individuals: parents are remapped, removed parents become NULL
    ind_rows_in = list(mi.individuals)
    ind_rows_out = list(mo.individuals)
    ok_map = check_ref_table(ctx, bad, "individuals", opts["filter_individuals"], ind_map,
                             [(f, loc, md) for f, loc, _, md in ind_rows_in],
                             [(f, loc, md) for f, loc, _, md in ind_rows_out])
    if ok_map:
        ctx.count("individual-parents")
        full = ind_map if opts["filter_individuals"] else {j: j for j in range(len(ind_rows_in))}
        fwd = lost = False
        for a, b in full.items():
            pin = ind_rows_in[a][2]
            pexp = tuple(full.get(p, NULL) if p != NULL else NULL for p in pin)
            fwd = fwd or any(p > a for p in pin)
            lost = lost or any(p != NULL and p not in full for p in pin)
            if 0 <= b < len(ind_rows_out) and ind_rows_out[b][2] != pexp:
                bad("individuals/parents", f"individual {a}->{b} parents {ind_rows_out[b][2]} expected {pexp} "
                    f"(input {pin}, id map {full})")
        if opts["filter_individuals"] and len(ind_map) < len(mi.individuals):
            if fwd:
                ctx.feature("disc:individual-parent-listed-later+filtered")
            if lost:
                ctx.feature("disc:individual-parent-removed")

    # ---- sites, mutations, genotypes
    check_sites_mutations(ctx, bad, mi, mo, nm, S, S_list, opts, okey)

    # ---- edges squashed (EITHER zone: parents that are extra input roots somewhere, see the docstring)
    ctx.count("edges-squashed")
    exempt = {nm[r] for r in rex_any if nm[r] != NULL}
    by = {}
    for l, r, p, ch, _ in mo.edges:
        by.setdefault((p, ch), []).append((l, r))
    for (p, ch), iv in by.items():
        if p in exempt:
            continue
        iv.sort()
        for (l1, r1), (l2, r2) in zip(iv[:-1], iv[1:]):
            if r1 == l2:
                bad("edges/not-squashed", f"output edges ({l1},{r1}) and ({l2},{r2}) for parent {p} child {ch} "
                    f"are adjacent and not merged")
                break

    # ---- everything else is untouched
    ctx.count("top-level")
    if mo.migrations:
        bad("top-level/migrations", "output has migrations")
    top_out = top_level(out_tc)
    for attr, a in c.top_in.items():
        b = top_out[attr]
        if a != b:
            bad(f"top-level/{attr.split(':')[0]}", f"{attr} {b!r} expected {a!r}")
    if mi.schemas or mi.refseq:
        ctx.count("top-level:schemas-or-refseq")
    ctx.count("provenance")
    nprov = len(mi.provenances) + c.prov_expected
    if len(mo.provenances) != nprov or mo.provenances[:len(mi.provenances)] != mi.provenances:
        bad("provenance/rows", f"{len(mo.provenances)} provenance rows, expected {nprov} "
            f"(record_provenance={record_provenance}) with the input rows first")
    elif c.prov_expected:
        check_provenance_record(ctx, bad, mo.provenances[-1])

    # ---- TreeSequence.simplify never modifies its input
    if c.ts_in is not None and rng.random() < 0.25:
        ctx.count("input-untouched")
        if from_tables(c.ts_in.dump_tables()).signature() != mi.signature():
            bad("input-mutated", "TreeSequence.simplify changed the tree sequence it was called on")

    # ---- idempotence (row equality is the claim)
    if idem and not unreferenced:
        S2 = [nm[s] for s in S_list]
        reuse = out_tc if (api == "tables" and rng.random() < 0.5) else None
        try:
            c2 = call_simplify(mo, S2, opts, api, rng, False, reuse=reuse, plain=reuse is None)
        except LIBERR as e:
            bad("idempotence/raised", f"second simplify raised {type(e).__name__}: {e}")
            return mo
        mo2, nm2 = c2.mo, c2.nm
        if reuse is not None:
            ctx.count("idempotence:same-object")
            mo2.provenances = mo2.provenances[:len(mo.provenances)]
        if reduce and opts["filter_sites"] and {s[0] for s in mo.sites} != {s[0] for s in mi.sites}:
            ctx.count("idempotence:semantic-only")
        else:
            ctx.count("idempotence")
            for t in ("nodes", "edges", "sites", "mutations", "individuals", "populations", "migrations"):
                a, b = getattr(mo, t), getattr(mo2, t)
                if a != b:
                    bad(f"idempotence/{t}", f"second simplify changed {t}: first {_short(a)} second {_short(b)}")
                    break
            else:
                if opts["filter_nodes"] and nm2 != list(range(len(mo.nodes))):
                    bad("idempotence/node-map", f"second simplify node_map {nm2} is not the identity")
    return mo


def _short(rows):
    s = repr(rows)
    return s if len(s) < 1500 else s[:1500] + "..."


def check_trees(ctx, bad, ts, mo):
    """The tree sequence made from the result must show the trees that the result ROWS describe (a stale index
    or a node table that was not reloaded would show something else)."""
    ctx.count("trees-vs-rows")
    if ts.num_nodes != len(mo.nodes) or ts.num_edges != len(mo.edges):
        bad("trees/size", f"tree sequence has {ts.num_nodes} nodes / {ts.num_edges} edges, tables have "
            f"{len(mo.nodes)} / {len(mo.edges)}")
        return
    bps = mo.breakpoints()
    got = [float(x) for x in ts.breakpoints()]
    if got != bps:
        bad("trees/breakpoints", f"trees change at {got[:60]}, the edge rows change at {bps[:60]}")
        return
    for tree in ts.trees():
        a, b = tree.interval
        exp = mo.forest_at((a + b) / 2)
        gotp = {int(k): int(v) for k, v in tree.parent_dict.items()}
        if gotp != exp:
            diff = {k: (gotp.get(k), exp.get(k)) for k in set(gotp) | set(exp) if gotp.get(k) != exp.get(k)}
            bad("trees/parent", f"tree on [{a},{b}) of the simplified tree sequence has (tree, rows) parents "
                f"{dict(list(diff.items())[:20])}")
            return


def check_provenance_record(ctx, bad, row):
    ctx.count("provenance-record")
    stamp, rec = row
    try:
        d = json.loads(rec)
        ok = d["parameters"]["command"] == "simplify" and d["software"]["name"] == "tskit" and "schema_version" in d
    except (ValueError, KeyError, TypeError):
        ok = False
    if not ok:
        bad("provenance/record", f"provenance record is not a tskit provenance naming simplify: {rec[:200]}")
    if not stamp:
        bad("provenance/timestamp", "provenance row without timestamp")


def check_ref_table(ctx, bad, name, filt, id_map, rows_in, rows_out):
    """Referenced-set arithmetic for populations / individuals."""
    ctx.count(f"refs:{name}")
    if not filt:
        if rows_out != rows_in:
            bad(f"{name}/altered-without-filter", f"filter_{name}=False but table changed: {_short(rows_out)} "
                f"expected {_short(rows_in)}")
            return False
        wrong = {a: b for a, b in id_map.items() if a != b}
        if wrong:
            bad(f"{name}/ids-changed-without-filter", f"filter_{name}=False but node references remapped {wrong}")
            return False
        return True
    if len(set(id_map.values())) != len(id_map):
        bad(f"{name}/id-map-not-injective", f"two input {name} share an output row: {id_map}")
        return False
    if sorted(id_map.values()) != list(range(len(rows_out))):
        bad(f"{name}/filter", f"filter_{name}=True: output has {len(rows_out)} rows but nodes reference exactly "
            f"{sorted(id_map.values())} (input->output {id_map})")
        return False
    for a, b in id_map.items():
        if rows_out[b] != rows_in[a]:
            bad(f"{name}/row", f"{name} {a}->{b} row {_short(rows_out[b])} expected {_short(rows_in[a])}")
            return False
    return True


def check_sites_mutations(ctx, bad, mi, mo, nm, S, S_list, opts, okey):
    pos_in = {s[0]: j for j, s in enumerate(mi.sites)}
    # expected surviving mutations: those sitting above at least one chosen sample
    surv = []  # (input mutation id, expected input-id node)
    at = {}
    moved = False
    for k, (sj, u, d, p, t, md) in enumerate(mi.mutations):
        if sj not in at:
            fr = forest(mi, mi.sites[sj][0])
            at[sj] = (fr,) + expected_parent_map(mi, fr, S, opts)
        fr, par, kept, A, rex, _ = at[sj]
        if u in A:
            tgt = expected_mutation_node(fr, u, kept, A, rex)
            surv.append((k, tgt))
            moved = moved or tgt != u
            if u in rex and u not in kept:
                ctx.feature("disc:mutation-on-extra-input-root")
    if moved:
        ctx.feature("disc:mutation-moved-to-descendant")
    if len(surv) < len(mi.mutations):
        ctx.feature("disc:mutation-dropped")
    surv_sites = {mi.mutations[k][0] for k, _ in surv}
    if len(surv_sites) < len(mi.sites):
        ctx.feature("disc:site-unreferenced:" + ("filtered" if opts["filter_sites"] else "kept"))
    ctx.count("sites-filter")
    if not opts["filter_sites"]:
        if mo.sites != mi.sites:
            bad("sites/altered-without-filter", f"filter_sites=False but sites {_short(mo.sites)} expected "
                f"{_short(mi.sites)}")
            return
        site_map = {j: j for j in range(len(mi.sites))}
    else:
        site_map = {}
        okk = True
        last = -1
        for j2, s in enumerate(mo.sites):
            j = pos_in.get(s[0])
            if j is None or mi.sites[j] != s or j <= last:
                bad("sites/row", f"output site {j2} {_short(s)} is not an input site row in order (input "
                    f"{_short(mi.sites)})")
                okk = False
                break
            site_map[j] = j2
            last = j
        if not okk:
            return
        # self-consistency: kept iff referenced by an output mutation
        ref = {m[0] for m in mo.mutations}
        if ref != set(range(len(mo.sites))):
            bad("sites/filter", f"filter_sites=True: output sites {list(range(len(mo.sites)))} but mutations reference "
                f"{sorted(ref)}")
        if set(site_map) != surv_sites:
            bad("sites/filter-set", f"filter_sites=True: kept input sites {sorted(site_map)}, but the sites with a "
                f"mutation above a chosen sample are {sorted(surv_sites)}")
            return
    # mutations row by row (order within the table must be preserved: it encodes mutation age)
    ctx.count("mutations")
    mut_map = {k: k2 for k2, (k, _) in enumerate(surv)}
    if len(mo.mutations) != len(surv):
        bad("mutations/set", f"{len(mo.mutations)} output mutations, expected {len(surv)}: the input mutations "
            f"{[k for k, _ in surv]} sit above a chosen sample; output {_short(mo.mutations)}")
    else:
        for k2, (k, unode) in enumerate(surv):
            sj, u, d, p, t, md = mi.mutations[k]
            exp = (site_map.get(sj), nm[unode] if unode is not None else None, d,
                   mut_map.get(p, NULL) if p != NULL else NULL, t, md)
            got = mo.mutations[k2]
            if got != exp:
                fld = [f for f, a, b in zip(("site", "node", "derived_state", "parent", "time", "metadata"), got, exp)
                       if a != b]
                bad(f"mutations/{'+'.join(fld)}", f"input mutation {k} {_short(mi.mutations[k])} became "
                    f"{_short(got)}, expected {_short(exp)} (node_map={nm if len(nm) < 40 else '...'})")
                break
        else:
            ctx.count("mutation-parents")
            ref = mutation_parents(mo)
            got = [m[3] for m in mo.mutations]
            if ref != got:
                bad("mutations/parents-inconsistent", f"output mutation parents {got}, recomputed from the output "
                    f"topology {ref}")
    # genotypes of every chosen sample at every retained site
    out_site = {s[0]: q for q, s in enumerate(mo.sites)}
    for s2 in mo.sites:
        j = pos_in.get(s2[0])
        if j is None:
            continue
        j2 = out_site[s2[0]]
        fi = forest(mi, s2[0])
        fo = forest(mo, s2[0])
        for s in S_list:
            if nm[s] == NULL:
                continue
            ctx.count("genotypes")
            a = allele_at(mi, fi, j, s)
            b = allele_at(mo, fo, j2, nm[s])
            if a != b:
                bad(f"genotype/{okey}", f"sample {s}->{nm[s]} at site {j} (x={s2[0]}) has allele {b[:40]!r}, "
                    f"was {a[:40]!r}")


# ------------------------------------------------------------------------------- error classes


def run_errors(case, ctx, rng):
    m = build({"gen": "walk"}, rng)
    n = m.num_nodes
    detail = {"model": m.to_json()}
    api = rng.choice(["tables", "ts"])

    def expect_raise(key, what, fn, errs=LIBERR):
        ctx.count("errors")
        try:
            fn()
        except errs:
            return
        ctx.violation(key, f"{what} did not raise", detail)

    def simp(tc, *a, **kw):
        if api == "ts":
            return tc.tree_sequence().simplify(*a, **kw)
        return tc.simplify(*a, **kw)

    if n >= 1:
        s = [rng.randrange(n) for _ in range(rng.randint(1, 3))]
        d = s + [rng.choice(s)]
        rng.shuffle(d)
        expect_raise("errors/duplicate-sample-accepted", f"simplify(samples={d}) with a duplicate",
                     lambda: simp(to_tables(m), d))
    for b in (n, -1, n + 5, -2):
        s = [u for u in range(min(n, 2))] + [b]
        expect_raise("errors/out-of-range-sample-accepted", f"simplify(samples={s}) on {n} nodes",
                     lambda: simp(to_tables(m), s))
    expect_raise("errors/both-unary-options-accepted", "keep_unary and keep_unary_in_individuals together",
                 lambda: simp(to_tables(m), keep_unary=True, keep_unary_in_individuals=True))
    # ids that only become valid after wrapping to 32 bits, or after truncation to an integer, must not be
    # simplified as if they were that id (any of the argument errors is fine)
    if n >= 1:
        u = rng.randrange(n)
        for bad_arg, what in ((np.array([u + 2 ** 32], dtype=np.int64), "int64 id = valid id + 2**32"),
                              ([u + 2 ** 32], "Python int id = valid id + 2**32"),
                              (np.array([u - 2 ** 32], dtype=np.int64), "int64 id = valid id - 2**32"),
                              (np.array([u + 0.5]), "float64 id"),
                              ([[u]], "nested list")):
            expect_raise("errors/malformed-samples-accepted", f"simplify(samples={bad_arg!r}) ({what})",
                         lambda: simp(to_tables(m), bad_arg), ARGERR)
    # migrations are refused
    m2 = m.copy()
    if not m2.populations:
        m2.populations = [(b"",)]
    if n:
        m2.migrations = [(0.0, m2.L, rng.randrange(n), 0, 0, 1.0, b"")]
        expect_raise("errors/migrations-accepted", "simplify on a collection with migrations",
                     lambda: to_tables(m2).simplify())
    # edges with metadata are refused (TSK_ERR_CANT_PROCESS_EDGES_WITH_METADATA): the output edges are new rows,
    # so accepting them would silently lose the metadata
    if m.edges:
        m4 = m.copy()
        j = rng.randrange(len(m4.edges))
        m4.edges[j] = m4.edges[j][:4] + (b"x",)
        expect_raise("errors/edge-metadata-accepted", "simplify on a collection whose edges carry metadata",
                     lambda: simp(to_tables(m4)))
    # unsorted edges are refused (TableCollection only: no tree sequence can be built)
    if len(m.edges) >= 2:
        tp = sorted({m.time(e[2]) for e in m.edges})
        if len(tp) >= 2:
            m3 = m.copy()
            m3.edges = sorted(m.edges, key=lambda e: -m.time(e[2]))
            expect_raise("errors/unsorted-edges-accepted", "TableCollection.simplify on edges sorted by decreasing "
                         "parent time", lambda: to_tables(m3).simplify())
    run_empty(ctx, rng)
    ctx.sig(("errors", m.signature()), nontrivial=n > 0)


def run_empty(ctx, rng):
    """Zero nodes / zero rows everywhere: simplify must return an empty map and an empty valid result."""
    ctx.count("empty-collection")
    L = rng.choice([1.0, 10.0])
    tc = tskit.TableCollection(L)
    kw = simplify_kwargs(rng.choice(ALL_OPTS), rng)
    arg = rng.choice([None, [], (), np.array([], dtype=np.int32), np.array([], dtype=np.float64)])
    what = f"empty TableCollection.simplify({arg!r}, **{kw})"
    try:
        if rng.random() < 0.5:
            nm = tc.simplify(arg, record_provenance=False, **kw)
            out = tc
        else:
            ts, nm = tc.tree_sequence().simplify(arg, map_nodes=True, record_provenance=False, **kw)
            out = ts.dump_tables()
        out.tree_sequence()
    except LIBERR as e:
        ctx.violation("simplify/raised-on-valid-input", f"{what} raised {type(e).__name__}: {e}", None)
        return
    mo = from_tables(out)
    if len(nm) != 0 or any(getattr(mo, t) for t in RowModel.TABLES) or mo.L != L:
        ctx.violation("empty/not-empty", f"{what} returned node map {list(nm)} and tables {mo.to_json()}", None)


# ------------------------------------------------------------------------------- driver


def run_case(case, ctx):
    rng = case_rng(case)
    if case["gen"] == "errors":
        run_errors(case, ctx, rng)
        return
    m = build(case, rng)
    is_big = case["gen"] == "big"
    ntrees = len(m.breakpoints()) - 1
    tags = set(m.tags) if (is_big or ntrees > 60) else gen.topo_tags(m)
    for t in tags:
        ctx.feature(t)
    ebps = {e[0] for e in m.edges} | {e[1] for e in m.edges}
    if any(s[0] in ebps and 0 < s[0] for s in m.sites):
        ctx.feature("site-on-breakpoint")
    if any(s[0] == 0 for s in m.sites):
        ctx.feature("site-at-0")
    ctx.sig(m.signature(), nontrivial=len(m.edges) > 0)
    if case["k"] < 2:
        ctx.sample({"case": case, "model": m.to_json()})
    if case["gen"] == "walk-all384":
        samples, how = choose_samples(rng, m)
        ctx.feature("samples:" + how)
        for opts in ALL_OPTS:
            check_call(ctx, m, samples, opts, rng.choice(["tables", "ts"]), rng, idem=rng.random() < 0.25)
        ctx.count("all-384-sweeps")
        return
    if is_big:
        ctx.count("big-cases")
        ncalls = 4 if case["tier"] == "quick" else 8
        # first call: every flagged sample with the defaults (the star queues then hold exactly their child count),
        # second: unary retention + input roots (every node of a chain survives), then random option sets
        picks = [DFLT, dict(rng.choice(ALL_OPTS), unary=rng.choice(["ku", "kuii"]), keep_input_roots=True)]
        picks += rng.sample(ALL_OPTS, ncalls - 2)
        for j, opts in enumerate(picks):
            samples, how = (None, "none-arg") if j == 0 else choose_samples_big(rng, m)
            ctx.feature("samples:" + how)
            ctx.feature("opt:" + opt_key(opts))
            check_call(ctx, m, samples, opts, rng.choice(["tables", "ts"]), rng,
                       record_provenance=rng.choice([False, True, None]), idem=rng.random() < 0.5)
        return
    ncalls = 12 if case["tier"] == "quick" else 16
    if ntrees > 25:
        # the msprime family is heavy-tailed (hundreds of trees): same cost per input, fewer calls on the giants
        ncalls = max(4, ncalls * 25 // ntrees)
        ctx.feature("many-trees:fewer-calls")
    picks = rng.sample(ALL_OPTS, ncalls - 2)
    # the documented defaults are always exercised, with and without keyword arguments
    picks = [DFLT, dict(DFLT, keep_input_roots=True)] + picks
    for opts in picks:
        samples, how = choose_samples(rng, m)
        ctx.feature("samples:" + how)
        ctx.feature("opt:" + opt_key(opts))
        api = rng.choice(["tables", "ts"])
        r = rng.random()
        check_call(ctx, m, samples, opts, api, rng, record_provenance=True if r < 0.2 else (None if r < 0.4 else False))
    # default-argument forms and map_nodes=False agree with the explicit call
    check_default_forms(ctx, m, rng)


def check_default_forms(ctx, m, rng):
    samples, _ = choose_samples(rng, m)
    ctx.count("default-forms")
    tc = to_tables(m)
    ts = tc.tree_sequence()
    detail = {"model": m.to_json(), "samples": samples}
    try:
        a = ts.simplify(samples, record_provenance=False)
        b, nm = ts.simplify(samples, map_nodes=True, record_provenance=False, filter_populations=True,
                            filter_individuals=True, filter_sites=True, filter_nodes=True, update_sample_flags=True,
                            keep_unary=False, keep_unary_in_individuals=False, keep_input_roots=False,
                            reduce_to_site_topology=False)
        tc2 = tc.copy()
        nm2 = tc2.simplify(samples, record_provenance=False)
    except LIBERR as e:
        ctx.violation("simplify/raised-on-valid-input", f"default simplify raised {e} samples={samples}", detail)
        return
    ma, mb, mc = from_tables(a.dump_tables()), from_tables(b.dump_tables()), from_tables(tc2)
    for t in RowModel.TABLES:
        if not (getattr(ma, t) == getattr(mb, t) == getattr(mc, t)):
            ctx.violation("defaults/forms-differ", f"table {t} differs between simplify(samples), the call with every "
                          f"default spelled out and TableCollection.simplify: {getattr(ma, t)} / {getattr(mb, t)} / "
                          f"{getattr(mc, t)}", detail)
            break
    if [int(x) for x in nm] != [int(x) for x in nm2]:
        ctx.violation("defaults/node-map-differs", f"node maps differ {list(nm)} {list(nm2)}", detail)
    # the input is never modified by TreeSequence.simplify
    if from_tables(ts.dump_tables()).signature() != m.signature():
        ctx.violation("input-mutated", "TreeSequence.simplify changed its input", detail)
