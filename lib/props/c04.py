"""C04 — simplify preserves the sample genealogy and the sample genotypes exactly.

Oracle (written from the simplify docstrings, per position, no segment logic):
for every elementary interval of input U output breakpoints the expected parent map over *input*
node ids is derived from the input forest at the mid-point and the option set, pushed through the
returned node map and compared with the output forest read back through raw columns.

EITHER zones (documented nowhere, therefore not asserted):
  * row order of output edges / non-sample nodes, metadata of output edges (simplify writes new edges);
  * order in which surviving populations / individuals are renumbered (only the induced id map is
    checked to be a consistent injection onto all output rows);
  * which library error is raised for a refused call (any tskit LibraryError / ValueError is accepted);
  * reduce_to_site_topology: topology is only compared at site positions; with filter_nodes the retained
    node set is bounded between "kept at a site position" and "kept somewhere" (keep_input_roots can leave
    a root whose only root-edge spans no site);
  * reduce_to_site_topology + filter_sites: a second simplify sees fewer site positions, so row-level
    idempotence is not claimed there (the second result is still checked semantically);
  * keep_input_roots: the extra root edges are flushed separately, so adjacent (parent, child) edges may
    stay unsquashed when the parent is one of those extra input roots; squashing is asserted for every other
    parent;
  * a refused call (bad samples, both unary options, migrations, edge metadata): whether the TableCollection
    is left untouched is not documented and not asserted;
  * which exception class a malformed ``samples`` argument raises (TypeError / ValueError / OverflowError /
    LibraryError are all accepted) - only "does not silently simplify something else" is asserted.

Entry points and argument forms driven (AUDIT-C04.md): TableCollection.simplify on a fresh / indexed / copied /
pickled / file-loaded collection and on the SAME object twice, TreeSequence.simplify on a fresh / file-loaded
tree sequence, the low-level _tskit.TableCollection.simplify; samples as list / tuple / int32 / int64 / uint32 /
strided array / list of numpy scalars / positional / keyword; options spelled out, omitted or None when they have
their documented default; record_provenance True / False / omitted; deprecated filter_zero_mutation_sites.
The trees of the returned tree sequence (not only its tables) are compared with the output rows.
"""
import itertools
import json
import os
import pickle
import tempfile
import warnings

import numpy as np
import tskit

from lib import gen
from lib.harness import case_rng
from lib.model import NODE_IS_SAMPLE, NULL, RowModel, allele_at, forest, mutation_parents
from lib.props import c04_gen
from lib.tsk import from_tables
from lib.tsk import to_tables as _to_tables_plain

ID = "C04"

LIBERR = (tskit.LibraryError, ValueError)

BOOL_OPTS = ("keep_input_roots", "filter_nodes", "filter_sites", "filter_individuals",
             "filter_populations", "update_sample_flags", "reduce_to_site_topology")


def all_option_sets():
    out = []
    for unary in ("none", "ku", "kuii"):
        for bits in itertools.product((False, True), repeat=len(BOOL_OPTS)):
            o = dict(zip(BOOL_OPTS, bits))
            o["unary"] = unary
            out.append(o)
    return out


ALL_OPTS = all_option_sets()  # 384


def cases(tier, seed):
    n = 40000 if tier == "quick" else 4000000
    for k in range(n):
        r = k % 20
        if r == 17:
            yield {"gen": "errors", "k": k}
        elif r in (5, 11):
            yield {"gen": "msprime", "k": k}
        elif r == 19 and tier == "thorough":
            yield {"gen": "walk-all384", "k": k}
        else:
            yield {"gen": "walk", "k": k}


# ------------------------------------------------------------------------------- inputs


def build(case, rng):
    g = case["gen"]
    if g == "msprime":
        return build_msprime(rng)
    big = rng.random() < 0.12
    m = gen.gen_full(rng, max_nodes=18 if big else 9, max_bp=8 if big else 4, max_sites=7,
                     pops=rng.random() < 0.7, meta=False, discrete=rng.random() < 0.3)
    if rng.random() < 0.7:
        # simplify refuses edges with metadata (TSK_ERR_CANT_PROCESS_EDGES_WITH_METADATA), so none here
        gen.decorate_meta(rng, m, tables=("nodes", "sites", "mutations", "individuals", "populations"))
    if rng.random() < 0.3:
        m.provenances = [("2020-01-01T00:00:00", '{"x": 1}')]
    if rng.random() < 0.2:
        m.metadata = b"top-level\x00meta"
        m.time_units = "generations"
    return m


def build_msprime(rng):
    import msprime

    n = rng.randint(2, 6)
    ts = msprime.sim_ancestry(n, ploidy=rng.choice([1, 2]), sequence_length=rng.choice([10, 20]),
                              recombination_rate=rng.choice([0.0, 0.05, 0.2]),
                              population_size=rng.choice([1, 10]),
                              random_seed=rng.randint(1, 2 ** 31 - 1),
                              record_full_arg=rng.random() < 0.3,
                              discrete_genome=rng.random() < 0.7)
    ts = msprime.sim_mutations(ts, rate=rng.choice([0.0, 0.02, 0.1]), random_seed=rng.randint(1, 2 ** 31 - 1),
                               discrete_genome=rng.random() < 0.7)
    tc = ts.dump_tables()
    tc.provenances.clear()
    m = from_tables(tc)
    m.schemas = {}
    m.metadata_schema = ""
    m.metadata = b""
    m.refseq = None
    m.tags.add("msprime")
    if rng.random() < 0.5:
        gen.decorate_meta(rng, m, tables=("nodes", "sites", "mutations", "individuals", "populations"))
    return m


def choose_samples(rng, m):
    n = m.num_nodes
    flagged = m.samples()
    r = rng.random()
    if r < 0.15:
        return None, "none-arg"
    if r < 0.30 and flagged:
        s = list(flagged)
        rng.shuffle(s)
        return s, "all-flagged-shuffled"
    if r < 0.50 and flagged:
        s = rng.sample(flagged, rng.randint(1, len(flagged)))
        return s, "flagged-subset"
    if r < 0.80 and n:
        s = rng.sample(range(n), rng.randint(1, min(n, 6)))
        return s, "any-nodes"
    if r < 0.87 and n:
        return [rng.randrange(n)], "single"
    if r < 0.92:
        return [], "empty"
    s = list(range(n))
    rng.shuffle(s)
    return s, "all-nodes"


# ------------------------------------------------------------------------------- reference


def expected_parent_map(mi, fr, S, opts):
    """Induced genealogy of the chosen samples S at one position, over input node ids.

    A = nodes with a chosen sample at or below them.  A node of A is retained there when it is a chosen
    sample, or at least two of its children are in A (a coalescence of sample lineages), or it has exactly
    one child in A and the unary option in force allows it.  Each retained node hangs from its nearest
    retained ancestor; keep_input_roots additionally hangs each parentless retained node from the root of
    the input tree it sits in."""
    A = set()
    for s in S:
        A.update(fr.path_up(s))
    kept = set()
    for u in A:
        if u in S:
            kept.add(u)
            continue
        kc = sum(1 for c in fr.kids(u) if c in A)
        if kc >= 2:
            kept.add(u)
        elif kc == 1:
            if opts["unary"] == "ku" or (opts["unary"] == "kuii" and mi.nodes[u][3] != NULL):
                kept.add(u)
    parent = {}
    for v in kept:
        p = fr.par(v)
        while p != NULL and p not in kept:
            p = fr.par(p)
        if p != NULL:
            parent[v] = p
    root_extra = set()
    if opts["keep_input_roots"]:
        for v in kept:
            if v not in parent:
                r = fr.root_of(v)
                if r != v:
                    parent[v] = r
                    root_extra.add(r)
    return parent, kept, A, root_extra


def expected_mutation_node(fr, u, kept, A, root_extra):
    """Input-id node that must carry a mutation sitting on input node u (u in A)."""
    if u in kept or u in root_extra:
        return u
    v = u
    while v not in kept:
        nxt = [c for c in fr.kids(v) if c in A]
        if len(nxt) != 1:
            return None  # cannot happen for a node of A that is not retained
        v = nxt[0]
    return v


# ------------------------------------------------------------------------------- the monitor


def simplify_kwargs(opts):
    kw = {k: opts[k] for k in BOOL_OPTS}
    if opts["unary"] == "ku":
        kw["keep_unary"] = True
    elif opts["unary"] == "kuii":
        kw["keep_unary_in_individuals"] = True
    return kw


def opt_key(opts):
    s = {"none": "default", "ku": "keep_unary", "kuii": "keep_unary_in_individuals"}[opts["unary"]]
    if opts["keep_input_roots"]:
        s += "+keep_input_roots"
    if opts["reduce_to_site_topology"]:
        s += "+reduce"
    if not opts["filter_nodes"]:
        s += "+nofilter_nodes"
    return s


def call_simplify(mi, samples, opts, api, record_provenance, as_array):
    """Run the real code.  Returns (output RowModel, node_map list, table collection)."""
    kw = simplify_kwargs(opts)
    arg = samples
    if samples is not None and as_array:
        arg = np.array(samples, dtype=np.int32)
    tc = to_tables(mi)
    # the deprecated alias filter_zero_mutation_sites must behave exactly like filter_sites on both entry points
    # (chosen deterministically from the inputs so that the case descriptor stays the replay)
    if "filter_sites" in kw and (len(mi.edges) + len(mi.sites) + (0 if samples is None else len(samples))) % 5 == 0:
        kw["filter_zero_mutation_sites"] = kw.pop("filter_sites")
    import warnings
    warnings.simplefilter("ignore", FutureWarning)
    if api == "tables":
        nm = tc.simplify(arg, record_provenance=record_provenance, **kw)
        out = tc
    else:
        ts = tc.tree_sequence()
        ts2, nm = ts.simplify(arg, map_nodes=True, record_provenance=record_provenance, **kw)
        out = ts2.dump_tables()
    return from_tables(out), [int(x) for x in nm], out


def check_call(ctx, mi, samples_arg, opts, api, rng, record_provenance=False, idem=True):
    n = mi.num_nodes
    S_list = list(mi.samples()) if samples_arg is None else list(samples_arg)
    S = set(S_list)
    okey = opt_key(opts)
    what = f"api={api} samples={samples_arg} opts={ {k: v for k, v in opts.items()} }"
    detail = {"model": mi.to_json(), "samples": samples_arg, "opts": opts, "api": api}

    def bad(key, msg):
        ctx.violation(key, f"{msg} [{what}]", detail)

    try:
        mo, nm, out_tc = call_simplify(mi, samples_arg, opts, api, record_provenance, rng.random() < 0.5)
    except LIBERR as e:
        bad("simplify/raised-on-valid-input", f"simplify raised {type(e).__name__}: {e}")
        return None
    ctx.count("simplify-calls")
    ctx.count(f"api:{api}")

    # ---- validity of the result
    ctx.count("validity")
    try:
        out_tc.tree_sequence()
    except LIBERR as e:
        bad("validity/output-rejected", f"output of simplify is not accepted by tree_sequence(): {e}")
        return None
    if mo.L != mi.L:
        bad("validity/sequence-length", f"sequence_length {mo.L} expected {mi.L}")

    # ---- node map shape
    ctx.count("node-map")
    if len(nm) != n:
        bad("node-map/length", f"node_map has {len(nm)} entries for {n} input nodes")
        return None
    n_out = len(mo.nodes)
    img = [x for x in nm if x != NULL]
    if sorted(img) != list(range(n_out)):
        bad("node-map/not-bijection", f"node_map {nm} is not a bijection onto the {n_out} output nodes")
        return None
    if opts["filter_nodes"]:
        ctx.count("node-map:samples-first")
        got = [nm[s] for s in S_list]
        if got != list(range(len(S_list))):
            bad("node-map/samples-not-first", f"node_map[samples]={got}, expected 0..{len(S_list) - 1}")
    else:
        ctx.count("node-map:identity")
        if nm != list(range(n)):
            bad("node-map/not-identity", f"filter_nodes=False but node_map={nm}")
            return None

    # ---- genealogy per position
    reduce = opts["reduce_to_site_topology"]
    if reduce:
        positions = [s[0] for s in mi.sites]
    else:
        bps = sorted(set(mi.breakpoints()) | set(mo.breakpoints()))
        positions = [(a + b) / 2 for a, b in zip(bps[:-1], bps[1:])]
    kept_any = set(S)
    gen_ok = True
    for x in positions:
        fr = forest(mi, x)
        par, kept, A, rex = expected_parent_map(mi, fr, S, opts)
        kept_any.update(par.keys())
        kept_any.update(par.values())
        ctx.count("genealogy")
        unmapped = [u for u in set(par) | set(par.values()) if nm[u] == NULL]
        if unmapped:
            bad(f"genealogy/{okey}/node-dropped",
                f"at x={x} nodes {sorted(unmapped)} belong to the induced genealogy but node_map gives NULL; "
                f"expected parent map {par}")
            gen_ok = False
            continue
        exp = {nm[c]: nm[p] for c, p in par.items()}
        got = mo.forest_at(x)
        if got != exp:
            inv = {v: u for u, v in enumerate(nm) if v != NULL}
            got_in = {inv.get(c, f"out{c}"): inv.get(p, f"out{p}") for c, p in got.items()}
            bad(f"genealogy/{okey}",
                f"at x={x} output forest (input ids) {got_in} differs from induced genealogy {par}; node_map={nm}")
            gen_ok = False
    if reduce:
        ctx.count("reduce:trees-have-sites")
        obps = mo.breakpoints()
        if not mi.sites:
            if mo.edges:
                bad("reduce/edges-without-sites", f"no sites but {len(mo.edges)} output edges")
        else:
            for a, b in zip(obps[:-1], obps[1:]):
                if not any(a <= s[0] < b for s in mi.sites):
                    bad("reduce/tree-without-site", f"output tree [{a},{b}) contains no site; sites at "
                        f"{[s[0] for s in mi.sites]}")
        # the full (non-reduced) retained set bounds the node set from above
        upper = set(S)
        ibps = mi.breakpoints()
        for a, b in zip(ibps[:-1], ibps[1:]):
            par, _, _, _ = expected_parent_map(mi, forest(mi, (a + b) / 2), S, opts)
            upper.update(par.keys())
            upper.update(par.values())
    else:
        upper = kept_any

    # ---- retained node set and node rows
    unreferenced = False
    if opts["filter_nodes"]:
        ctx.count("node-set")
        retained = {u for u in range(n) if nm[u] != NULL}
        missing = kept_any - retained
        extra = retained - upper
        if missing and gen_ok:
            bad(f"node-set/{okey}/missing", f"nodes {sorted(missing)} must be retained, node_map={nm}")
        if extra:
            bad(f"node-set/{okey}/extra-node-kept",
                f"nodes {sorted(extra)} are retained but are neither chosen samples nor part of the induced "
                f"genealogy anywhere; node_map={nm}")
        # "filter_nodes: remove any nodes that are not referenced by edges after simplification"
        used = {e[2] for e in mo.edges} | {e[3] for e in mo.edges}
        loose = sorted(u for u in retained if u not in S and nm[u] not in used)
        if loose:
            unreferenced = True
            how = "reduce_to_site_topology+keep_input_roots" if (reduce and opts["keep_input_roots"]) else okey
            bad(f"node-set/unreferenced-node-kept/{how}",
                f"filter_nodes=True but input nodes {loose} (output {[nm[u] for u in loose]}) are kept although no "
                f"output edge references them and they are not chosen samples; output edges {mo.edges}")
    # population / individual id maps derived from the node rows
    pop_map, ind_map = {}, {}
    ctx.count("node-rows")
    for u in range(n):
        v = nm[u]
        if v == NULL:
            continue
        fi, ti, pi, ii, mdi = mi.nodes[u]
        fo, to_, po, io, mdo = mo.nodes[v]
        fexp = fi
        if opts["update_sample_flags"]:
            fexp = (fi & ~NODE_IS_SAMPLE) | (NODE_IS_SAMPLE if u in S else 0)
        if fo != fexp:
            bad("node-row/flags", f"node {u}->{v} flags {fo} expected {fexp} (input {fi}, chosen={u in S}, "
                f"update_sample_flags={opts['update_sample_flags']})")
        if to_ != ti:
            bad("node-row/time", f"node {u}->{v} time {to_} expected {ti}")
        if mdo != mdi:
            bad("node-row/metadata", f"node {u}->{v} metadata {mdo!r} expected {mdi!r}")
        for name, a, b, mp in (("population", pi, po, pop_map), ("individual", ii, io, ind_map)):
            if (a == NULL) != (b == NULL):
                bad(f"node-row/{name}", f"node {u}->{v} {name} {b} but input {a}")
            elif a != NULL:
                if mp.setdefault(a, b) != b:
                    bad(f"node-row/{name}", f"node {u}->{v}: input {name} {a} mapped to both {mp[a]} and {b}")
    check_ref_table(ctx, bad, "populations", opts["filter_populations"], pop_map,
                    [p for p in mi.populations], [p for p in mo.populations])
    # individuals: parents are remapped, removed parents become NULL
    ind_rows_in = list(mi.individuals)
    ind_rows_out = list(mo.individuals)
    ok_map = check_ref_table(ctx, bad, "individuals", opts["filter_individuals"], ind_map,
                             [(f, loc, md) for f, loc, _, md in ind_rows_in],
                             [(f, loc, md) for f, loc, _, md in ind_rows_out])
    if ok_map:
        full = ind_map if opts["filter_individuals"] else {j: j for j in range(len(ind_rows_in))}
        for a, b in full.items():
            pin = ind_rows_in[a][2]
            pexp = tuple(full.get(p, NULL) if p != NULL else NULL for p in pin)
            if 0 <= b < len(ind_rows_out) and ind_rows_out[b][2] != pexp:
                bad("individuals/parents", f"individual {a}->{b} parents {ind_rows_out[b][2]} expected {pexp} "
                    f"(input {pin}, id map {full})")

    # ---- sites, mutations, genotypes
    check_sites_mutations(ctx, bad, mi, mo, nm, S, S_list, opts, okey)

    # ---- edges squashed
    if not opts["keep_input_roots"]:
        ctx.count("edges-squashed")
        by = {}
        for l, r, p, c, _ in mo.edges:
            by.setdefault((p, c), []).append((l, r))
        for (p, c), iv in by.items():
            iv.sort()
            for (l1, r1), (l2, r2) in zip(iv[:-1], iv[1:]):
                if r1 == l2:
                    bad("edges/not-squashed", f"output edges ({l1},{r1}) and ({l2},{r2}) for parent {p} child {c} "
                        f"are adjacent and not merged")

    # ---- everything else is untouched
    ctx.count("top-level")
    if mo.migrations:
        bad("top-level/migrations", "output has migrations")
    for attr in ("metadata", "metadata_schema", "time_units", "schemas", "refseq"):
        a, b = getattr(_norm(mi), attr), getattr(mo, attr)
        if a != b:
            bad(f"top-level/{attr}", f"{attr} {b!r} expected {a!r}")
    ctx.count("provenance")
    nprov = len(mi.provenances) + (1 if record_provenance else 0)
    if len(mo.provenances) != nprov or mo.provenances[:len(mi.provenances)] != mi.provenances:
        bad("provenance/rows", f"{len(mo.provenances)} provenance rows, expected {nprov} "
            f"(record_provenance={record_provenance}) with the input rows first")
    elif record_provenance and '"simplify"' not in mo.provenances[-1][1]:
        bad("provenance/record", f"provenance record does not name simplify: {mo.provenances[-1][1][:100]}")

    # ---- idempotence (row equality is the claim)
    if idem and not unreferenced:
        S2 = [nm[s] for s in S_list]
        try:
            mo2, nm2, _ = call_simplify(mo, S2, opts, api, False, False)
        except LIBERR as e:
            bad("idempotence/raised", f"second simplify raised {type(e).__name__}: {e}")
            return mo
        if reduce and opts["filter_sites"]:
            ctx.count("idempotence:semantic-only")
        else:
            ctx.count("idempotence")
            for t in ("nodes", "edges", "sites", "mutations", "individuals", "populations", "migrations"):
                a, b = getattr(mo, t), getattr(mo2, t)
                if a != b:
                    bad(f"idempotence/{t}", f"second simplify changed {t}: first {a} second {b}")
                    break
            else:
                if opts["filter_nodes"] and nm2 != list(range(len(mo.nodes))):
                    bad("idempotence/node-map", f"second simplify node_map {nm2} is not the identity")
    return mo


def _norm(mi):
    """What from_tables reports for an input model that was written with to_tables."""
    class X:
        pass
    x = X()
    x.metadata = mi.metadata
    x.metadata_schema = mi.metadata_schema
    x.time_units = mi.time_units
    x.schemas = {k: v for k, v in mi.schemas.items() if v}
    x.refseq = mi.refseq
    return x


def check_ref_table(ctx, bad, name, filt, id_map, rows_in, rows_out):
    """Referenced-set arithmetic for populations / individuals."""
    ctx.count(f"refs:{name}")
    if not filt:
        if rows_out != rows_in:
            bad(f"{name}/altered-without-filter", f"filter_{name}=False but table changed: {rows_out} expected {rows_in}")
            return False
        wrong = {a: b for a, b in id_map.items() if a != b}
        if wrong:
            bad(f"{name}/ids-changed-without-filter", f"filter_{name}=False but node references remapped {wrong}")
            return False
        return True
    if len(set(id_map.values())) != len(id_map):
        bad(f"{name}/id-map-not-injective", f"two input {name} share an output row: {id_map}")
        return False
    if sorted(id_map.values()) != list(range(len(rows_out))):
        bad(f"{name}/filter", f"filter_{name}=True: output has {len(rows_out)} rows but nodes reference exactly "
            f"{sorted(id_map.values())} (input->output {id_map})")
        return False
    for a, b in id_map.items():
        if rows_out[b] != rows_in[a]:
            bad(f"{name}/row", f"{name} {a}->{b} row {rows_out[b]} expected {rows_in[a]}")
            return False
    return True


def check_sites_mutations(ctx, bad, mi, mo, nm, S, S_list, opts, okey):
    pos_in = {s[0]: j for j, s in enumerate(mi.sites)}
    # expected surviving mutations: those sitting above at least one chosen sample
    surv = []  # (input mutation id, expected input-id node)
    for k, (sj, u, d, p, t, md) in enumerate(mi.mutations):
        x = mi.sites[sj][0]
        fr = forest(mi, x)
        par, kept, A, rex = expected_parent_map(mi, fr, S, opts)
        if u in A:
            surv.append((k, expected_mutation_node(fr, u, kept, A, rex)))
    surv_sites = {mi.mutations[k][0] for k, _ in surv}
    ctx.count("sites-filter")
    if not opts["filter_sites"]:
        if mo.sites != mi.sites:
            bad("sites/altered-without-filter", f"filter_sites=False but sites {mo.sites} expected {mi.sites}")
            return
        site_map = {j: j for j in range(len(mi.sites))}
    else:
        site_map = {}
        okk = True
        last = -1
        for j2, s in enumerate(mo.sites):
            j = pos_in.get(s[0])
            if j is None or mi.sites[j] != s or j <= last:
                bad("sites/row", f"output site {j2} {s} is not an input site row in order (input {mi.sites})")
                okk = False
                break
            site_map[j] = j2
            last = j
        if not okk:
            return
        # self-consistency: kept iff referenced by an output mutation
        ref = {m[0] for m in mo.mutations}
        if ref != set(range(len(mo.sites))):
            bad("sites/filter", f"filter_sites=True: output sites {list(range(len(mo.sites)))} but mutations reference "
                f"{sorted(ref)}")
        if set(site_map) != surv_sites:
            bad("sites/filter-set", f"filter_sites=True: kept input sites {sorted(site_map)}, but the sites with a "
                f"mutation above a chosen sample are {sorted(surv_sites)}")
            return
    # mutations row by row (order within the table must be preserved: it encodes mutation age)
    ctx.count("mutations")
    mut_map = {k: k2 for k2, (k, _) in enumerate(surv)}
    if len(mo.mutations) != len(surv):
        bad("mutations/set", f"{len(mo.mutations)} output mutations, expected {len(surv)}: the input mutations "
            f"{[k for k, _ in surv]} sit above a chosen sample; output {mo.mutations}")
    else:
        for k2, (k, unode) in enumerate(surv):
            sj, u, d, p, t, md = mi.mutations[k]
            exp = (site_map.get(sj), nm[unode] if unode is not None else None, d,
                   mut_map.get(p, NULL) if p != NULL else NULL, t, md)
            got = mo.mutations[k2]
            if got != exp:
                fld = [f for f, a, b in zip(("site", "node", "derived_state", "parent", "time", "metadata"), got, exp)
                       if a != b]
                bad(f"mutations/{'+'.join(fld)}", f"input mutation {k} {mi.mutations[k]} became {got}, expected {exp} "
                    f"(node_map={nm})")
                break
        else:
            ctx.count("mutation-parents")
            ref = mutation_parents(mo)
            got = [m[3] for m in mo.mutations]
            if ref != got:
                bad("mutations/parents-inconsistent", f"output mutation parents {got}, recomputed from the output "
                    f"topology {ref}")
    # genotypes of every chosen sample at every retained site
    for s2 in mo.sites:
        j = pos_in.get(s2[0])
        if j is None:
            continue
        j2 = [q for q, s in enumerate(mo.sites) if s[0] == s2[0]][0]
        fi = forest(mi, s2[0])
        fo = forest(mo, s2[0])
        for s in S_list:
            if nm[s] == NULL:
                continue
            ctx.count("genotypes")
            a = allele_at(mi, fi, j, s)
            b = allele_at(mo, fo, j2, nm[s])
            if a != b:
                bad(f"genotype/{okey}", f"sample {s}->{nm[s]} at site {j} (x={s2[0]}) has allele {b!r}, was {a!r}")


# ------------------------------------------------------------------------------- error classes


def run_errors(case, ctx, rng):
    m = build({"gen": "walk"}, rng)
    n = m.num_nodes
    detail = {"model": m.to_json()}
    api = rng.choice(["tables", "ts"])

    def expect_raise(key, what, fn):
        ctx.count("errors")
        try:
            fn()
        except LIBERR:
            return
        ctx.violation(key, f"{what} did not raise", detail)

    def simp(tc, *a, **kw):
        if api == "ts":
            return tc.tree_sequence().simplify(*a, **kw)
        return tc.simplify(*a, **kw)

    if n >= 1:
        s = [rng.randrange(n) for _ in range(rng.randint(1, 3))]
        d = s + [rng.choice(s)]
        rng.shuffle(d)
        expect_raise("errors/duplicate-sample-accepted", f"simplify(samples={d}) with a duplicate",
                     lambda: simp(to_tables(m), d))
    for b in (n, -1, n + 5, -2):
        s = [u for u in range(min(n, 2))] + [b]
        expect_raise("errors/out-of-range-sample-accepted", f"simplify(samples={s}) on {n} nodes",
                     lambda: simp(to_tables(m), s))
    expect_raise("errors/both-unary-options-accepted", "keep_unary and keep_unary_in_individuals together",
                 lambda: simp(to_tables(m), keep_unary=True, keep_unary_in_individuals=True))
    # migrations are refused
    m2 = m.copy()
    if not m2.populations:
        m2.populations = [(b"",)]
    if n:
        m2.migrations = [(0.0, m2.L, rng.randrange(n), 0, 0, 1.0, b"")]
        expect_raise("errors/migrations-accepted", "simplify on a collection with migrations",
                     lambda: to_tables(m2).simplify())
    # unsorted edges are refused (TableCollection only: no tree sequence can be built)
    if len(m.edges) >= 2:
        tp = sorted({m.time(e[2]) for e in m.edges})
        if len(tp) >= 2:
            m3 = m.copy()
            m3.edges = sorted(m.edges, key=lambda e: -m.time(e[2]))
            expect_raise("errors/unsorted-edges-accepted", "TableCollection.simplify on edges sorted by decreasing "
                         "parent time", lambda: to_tables(m3).simplify())
    ctx.sig(("errors", m.signature()), nontrivial=n > 0)


# ------------------------------------------------------------------------------- driver


def run_case(case, ctx):
    rng = case_rng(case)
    if case["gen"] == "errors":
        run_errors(case, ctx, rng)
        return
    m = build(case, rng)
    for t in gen.topo_tags(m):
        ctx.feature(t)
    ctx.sig(m.signature(), nontrivial=len(m.edges) > 0)
    if case["k"] < 2:
        ctx.sample({"case": case, "model": m.to_json()})
    if case["gen"] == "walk-all384":
        samples, how = choose_samples(rng, m)
        ctx.feature("samples:" + how)
        for opts in ALL_OPTS:
            check_call(ctx, m, samples, opts, rng.choice(["tables", "ts"]), rng, idem=rng.random() < 0.25)
        ctx.count("all-384-sweeps")
        return
    ncalls = 12 if case["tier"] == "quick" else 16
    picks = rng.sample(ALL_OPTS, ncalls - 2)
    # the documented defaults are always exercised, with and without keyword arguments
    dflt = {"unary": "none", "keep_input_roots": False, "filter_nodes": True, "filter_sites": True,
            "filter_individuals": True, "filter_populations": True, "update_sample_flags": True,
            "reduce_to_site_topology": False}
    picks = [dflt, dict(dflt, keep_input_roots=True)] + picks
    for opts in picks:
        samples, how = choose_samples(rng, m)
        ctx.feature("samples:" + how)
        ctx.feature("opt:" + opt_key(opts))
        api = rng.choice(["tables", "ts"])
        check_call(ctx, m, samples, opts, api, rng, record_provenance=rng.random() < 0.3)
    # default-argument forms and map_nodes=False agree with the explicit call
    check_default_forms(ctx, m, rng)


def check_default_forms(ctx, m, rng):
    samples, _ = choose_samples(rng, m)
    ctx.count("default-forms")
    tc = to_tables(m)
    ts = tc.tree_sequence()
    detail = {"model": m.to_json(), "samples": samples}
    try:
        a = ts.simplify(samples, record_provenance=False)
        b, nm = ts.simplify(samples, map_nodes=True, record_provenance=False, filter_populations=True,
                            filter_individuals=True, filter_sites=True, filter_nodes=True, update_sample_flags=True,
                            keep_unary=False, keep_unary_in_individuals=False, keep_input_roots=False,
                            reduce_to_site_topology=False)
        tc2 = tc.copy()
        nm2 = tc2.simplify(samples, record_provenance=False)
    except LIBERR as e:
        ctx.violation("simplify/raised-on-valid-input", f"default simplify raised {e} samples={samples}", detail)
        return
    ma, mb, mc = from_tables(a.dump_tables()), from_tables(b.dump_tables()), from_tables(tc2)
    for t in RowModel.TABLES:
        if not (getattr(ma, t) == getattr(mb, t) == getattr(mc, t)):
            ctx.violation("defaults/forms-differ", f"table {t} differs between simplify(samples), the call with every "
                          f"default spelled out and TableCollection.simplify: {getattr(ma, t)} / {getattr(mb, t)} / "
                          f"{getattr(mc, t)}", detail)
            break
    if [int(x) for x in nm] != [int(x) for x in nm2]:
        ctx.violation("defaults/node-map-differs", f"node maps differ {list(nm)} {list(nm2)}", detail)
    # the input is never modified by TreeSequence.simplify
    if from_tables(ts.dump_tables()).signature() != m.signature():
        ctx.violation("input-mutated", "TreeSequence.simplify changed its input", detail)
