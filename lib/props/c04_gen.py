"""C04 helper: forced LARGE / structurally extreme inputs and extra input decorations for simplify.

Pure model code (no tskit).  Every model returned here is a valid tree sequence with correctly parented
mutations, like the ones of lib/gen.py; sizes are chosen around the allocation thresholds of the simplifier
(segment queue 64 -> 128 -> 256 entries, 8 KiB block allocator chunks = 256 segments / 341 edge intervals,
overlapper buffer 8) so that every run crosses them instead of leaving it to chance.
"""
from lib import gen
from lib.model import NODE_IS_SAMPLE, NULL, RowModel, forest, mutation_parents, sort_edges_key

SHAPES = ("stars", "stars", "breakpoints", "breakpoints", "chain", "msprime", "wide-walk")


def _finish(rng, m, max_sites=6, discrete=True):
    m.edges = sorted(m.edges, key=sort_edges_key(m))
    if rng.random() < 0.7:
        gen.decorate_pops_inds(rng, m)
    gen.decorate_sites(rng, m, max_sites=max_sites, discrete=discrete, max_muts=5)
    if rng.random() < 0.5:
        gen.decorate_meta(rng, m, tables=("nodes", "sites", "mutations", "individuals", "populations"))
    return m


def stars(rng):
    """Several star parents whose child counts sit exactly on the segment-queue thresholds (a queue of
    capacity C holds C-1 segments plus a sentinel, and doubles when the C-th is added): 63|64 then 127|128,
    sometimes 255|256.  Parents are processed in time order, so one model crosses every threshold."""
    m = RowModel(rng.choice([8.0, 16.0]))
    sizes = [63 + rng.choice([-1, 0, 0, 1]), 64 + rng.choice([-1, 0, 0, 1]),
             127 + rng.choice([-1, 0, 0, 1]), 128 + rng.choice([0, 0, 1])]
    if rng.random() < 0.25:
        sizes += [255 + rng.choice([0, 0, 1]), 256 + rng.choice([0, 1])]
    if rng.random() < 0.3:
        rng.shuffle(sizes)
    nodes, edges = [], []
    parents = []
    for i, k in enumerate(sizes):
        p = len(nodes)
        nodes.append((0, float(i + 1), NULL, NULL, b""))
        parents.append(p)
        for _ in range(k):
            c = len(nodes)
            nodes.append((NODE_IS_SAMPLE, 0.0, NULL, NULL, b""))
            edges.append((0.0, m.L, p, c, b""))
    top = len(nodes)
    nodes.append((0, float(len(sizes) + 2), NULL, NULL, b""))
    mode = rng.choice(["joined", "joined", "chained", "separate", "split"])
    if mode == "joined":
        for p in parents:
            edges.append((0.0, m.L, top, p, b""))
    elif mode == "chained":  # each star parent is a unary-ish child of the next one
        for a, b in zip(parents[:-1], parents[1:]):
            edges.append((0.0, m.L, b, a, b""))
        edges.append((0.0, m.L, top, parents[-1], b""))
    elif mode == "split":  # the stars hang from the top node on the left half only
        x = m.L / 2
        for p in parents:
            edges.append((0.0, x, top, p, b""))
    m.nodes = nodes
    m.edges = edges
    m.tags.update({"big:stars", "big:stars:" + mode, "polytomy>=64", "polytomy>=128"})
    if len(sizes) > 4:
        m.tags.add("polytomy>=256")
    return _finish(rng, m)


def breakpoints(rng):
    """Few nodes, hundreds of breakpoints: every (parent, child) pair has hundreds of disjoint edges, so the
    per-node ancestry lists and the per-parent edge buffer outgrow one 8 KiB chunk (256 / 341 entries)."""
    nbp = rng.choice([255, 256, 257, 341, 342, 400, 520, 700])
    L = float(nbp + 1)
    m = RowModel(L)
    ns = rng.randint(2, 4)
    nodes = [(NODE_IS_SAMPLE, 0.0, NULL, NULL, b"") for _ in range(ns)]
    P, Q, R = ns, ns + 1, ns + 2
    nodes += [(0, 1.0, NULL, NULL, b""), (0, 2.0, NULL, NULL, b""), (rng.choice([0, NODE_IS_SAMPLE]), 3.0, NULL, NULL, b"")]
    m.nodes = nodes
    choices = {u: [P, Q, NULL] if rng.random() < 0.5 else [P, Q] for u in range(ns)}
    choices[P] = [Q, R, NULL]
    choices[Q] = [R, NULL, R]
    flip = rng.choice([0.5, 0.9, 1.0])
    unsq = rng.random() < 0.15
    edges = []
    for u, ch in choices.items():
        cur = rng.choice(ch)
        start = 0.0
        for i in range(1, nbp + 2):
            x = float(i)
            if i == nbp + 1:
                nxt = None
            else:
                nxt = cur
                if rng.random() < flip:
                    nxt = rng.choice([c for c in ch if c != cur] or ch)
                elif unsq and rng.random() < 0.3:
                    nxt = "brk"
            if nxt != cur:
                if cur != NULL:
                    edges.append((start, x, cur, u, b""))
                start = x
                if nxt == "brk":
                    nxt = cur
                cur = nxt
    m.edges = edges
    m.tags.update({"big:breakpoints", "trees>=256"})
    if unsq:
        m.tags.add("unsquashed")
    return _finish(rng, m, max_sites=rng.choice([8, 8, 40, 120]))


def chain(rng):
    """A unary chain of depth 200..1000 with a sample leaf hanging off every few links."""
    d = rng.choice([200, 400, 1000])
    L = rng.choice([4.0, 10.0])
    m = RowModel(L)
    nodes = [(NODE_IS_SAMPLE, 0.0, NULL, NULL, b"")]
    edges = []
    bp = rng.choice([None, L / 2])
    prev = 0
    step = rng.choice([7, 25, 60])
    for i in range(1, d + 1):
        u = len(nodes)
        nodes.append((0, float(i), NULL, NULL, b""))
        if bp is not None and i % 50 == 0:
            edges.append((0.0, bp, u, prev, b""))  # the chain is broken on the right half every 50 links
        else:
            edges.append((0.0, L, u, prev, b""))
        if i % step == 0:
            c = len(nodes)
            nodes.append((NODE_IS_SAMPLE, float(i) - 0.5, NULL, NULL, b""))
            edges.append((0.0, L, u, c, b""))
        prev = u
    m.nodes = nodes
    m.edges = edges
    m.tags.update({"big:chain", f"depth>={d}"})
    return _finish(rng, m, max_sites=4)


def wide_walk(rng):
    """The ordinary forest walk at 60..140 nodes and up to 40 breakpoints."""
    m = gen.gen_full(rng, max_nodes=140, max_bp=40, max_sites=10, pops=rng.random() < 0.7, meta=False,
                     discrete=rng.random() < 0.3, n=rng.randint(60, 140))
    if rng.random() < 0.5:
        gen.decorate_meta(rng, m, tables=("nodes", "sites", "mutations", "individuals", "populations"))
    m.tags.add("big:wide-walk")
    return m


def blob(rng, m):
    """One > 64 KiB entry in each ragged column that simplify has to copy."""
    n = 65536 + rng.choice([0, 1, 4465])
    if m.nodes:
        u = rng.randrange(len(m.nodes))
        f, t, p, i, _ = m.nodes[u]
        m.nodes[u] = (f, t, p, i, bytes([65 + (u % 7)]) * n)
    if m.sites:
        j = rng.randrange(len(m.sites))
        pos, _, md = m.sites[j]
        m.sites[j] = (pos, "ACGT" * (n // 4) + "A" * (n % 4), md)
    if m.mutations:
        k = rng.randrange(len(m.mutations))
        s, u, _, p, t, md = m.mutations[k]
        m.mutations[k] = (s, u, "T" * n, p, t, md)
    if m.individuals:
        j = rng.randrange(len(m.individuals))
        f, loc, par, _ = m.individuals[j]
        m.individuals[j] = (f, tuple(float(x % 5) for x in range(9000)), par, b"\xff" * n)
    if m.populations:
        j = rng.randrange(len(m.populations))
        m.populations[j] = (b"p" * n,)
    m.tags.add("ragged>64KiB")
    return m


def unordered_individual_parents(rng, m):
    """Individuals whose parents are listed AFTER them (forward simulators do not sort the individual table);
    simplify must remap the parent ids through the complete id map, whatever the row order."""
    nind = len(m.individuals)
    if nind < 2:
        return m
    inds = []
    for i, (f, loc, _, md) in enumerate(m.individuals):
        others = [j for j in range(nind) if j != i]
        pars = tuple(rng.choice([NULL] + others + [max(others)]) for _ in range(rng.choice([1, 1, 2, 3])))
        inds.append((f, loc, pars, md))
    m.individuals = inds
    m.tags.add("individual-parents:unordered")
    return m


SCHEMAS = ('{"codec":"json"}', '{"codec":"json","type":"object"}',
           '{"codec":"struct","properties":{"x":{"binaryFormat":"i","type":"integer"}},"type":"object"}')


def schemas_and_refseq(rng, m):
    """Metadata schemas on every table (set after the rows, the row bytes are never decoded), top-level metadata
    with a schema, and a reference sequence: all of them must come out of simplify untouched."""
    for name in ("nodes", "edges", "sites", "mutations", "individuals", "populations", "migrations"):
        if rng.random() < 0.7:
            m.schemas[name] = rng.choice(SCHEMAS)
    if rng.random() < 0.5:
        m.metadata_schema = SCHEMAS[0]
        m.metadata = b'{"a": [1, 2]}'
    if rng.random() < 0.6:
        m.refseq = {"data": rng.choice(["", "ACGT" * 5]), "url": rng.choice(["", "http://x/y"]),
                    "metadata": rng.choice([b"", b'{"r": 1}']), "metadata_schema": rng.choice(["", SCHEMAS[0]])}
        if not any(m.refseq.values()):
            m.refseq["data"] = "A"
    m.tags.add("schemas")
    return m
