from lib.props.meta_common import ASSUME_COMMON

ID = "C18"
META = dict(
    LEVEL="exploration",
    RULE=("(enum) every leaf-labelled topology with n<=6 leaves (quick) / n<=7 (thorough), one case per top-level "
          "set partition; (rand/d7/big) random single trees: recursive/forest/chain/star/caterpillar/binary shapes, "
          "1..60 nodes (big: 300..5000), shuffled node ids, sample sets leaves/all/internal/mixed/none, time classes "
          "int/intgap/half/unit(root<=1)/neg/negbig(-1e6 leaves)/pow10/huge(1e15)/hugefrac/tiny/float; (ts) forest-walk "
          "tree sequences, every marginal tree; (msp) msprime genealogies; (aln) discrete-genome tree sequences with "
          "embedded/argument/missing reference sequences, a fixed share with >= 256 trees or a genome > 2^16; (thr) "
          "forests under root_threshold on / one above the sample counts of the parentless nodes; (wide) node tables of "
          "9..100001 rows (10^k +-1, > 2^15, > 2^16) with a small genealogy on the boundary and highest ids; extra time "
          "classes carry (branch rounds up to the next power of ten) and extreme (1e300, denormals). Crossed with root "
          "(None and every node as subtree root, Python and numpy ints), precision {None, 0..17}, node_labels {default, "
          "full, partial, empty, keys outside the tree}, include_branch_lengths {left out, None, True, False}, legacy "
          "newick() (positional / keyword precision, custom labels); Tree objects reached by at/at_index/first/last/"
          "iteration/reversed/copy/seek/seek_index/prev-next with sample_lists/tracked_samples, the null tree; tree "
          "sequences after file/pickle/tables round trips; the low-level writer with caller-sized buffers; nexus "
          "include_trees x include_alignments x precision x missing_data_character; FASTA wrap_width {0,1,7,60,L-1,L,"
          "L+1,2L+1,L/2,divisors of L,default} through as_*/write_* to StringIO, open files already holding text, "
          "paths, pathlib, keyword. Every output string is read by an independent Newick/nexus/FASTA reader and compared "
          "with the forest computed from the edge rows. Distinct = sha1 of the row tuples; non-trivial = has edges."),
    REQUIRED=["newick-parse", "as_newick:fast", "as_newick:general", "newick-fast-vs-general",
              "newick-default-precision", "as_newick:custom-labels", "as_newick:no-branch-lengths",
              "newick-multiroot-must-raise", "legacy-newick", "enum-trees", "nexus-parsed", "nexus-tree", "fasta",
              "alignments", "ll-tight-buffer", "legacy-newick:custom-labels", "legacy-newick:labels-open"],
    ASSUMPTIONS=ASSUME_COMMON + [
        "Python's '%.{p}f' float formatting and glibc's printf are both correctly rounded (branch strings are "
        "compared literally)",
        "node labels passed by the workload contain none of the Newick structure characters '(),:;' "
        "(as_newick documents that labels are not escaped)",
    ],
    BUDGET={"quick": 40.0, "thorough": 840.0},
    CASE_TIMEOUT={"quick": 120, "thorough": 600},
)
