"""C14 audit extensions (see AUDIT-C14.md): argument / call forms, top-level decoration, structurally extreme
generators (>= 256 rows per table, > 64 KiB ragged entries, > 65535 rows) and a numpy reference subset for the
> 65535-row instances.

Nothing here imports lib.props.c14 at module level (c07 imports c14, c14 imports this module).  Everything is
written from the documentation of TreeSequence.subset / TableCollection.subset / tsk_table_collection_subset
and shares no code with tskit.
"""
import array
import json

import numpy as np
import tskit

from lib.model import NODE_IS_SAMPLE, NULL, RowModel, mutation_parents, sort_edges_key

# =========================================================================== argument forms

# forms that the documentation names (a list; "a numpy array (or array-like) object (dtype=np.int32)") or that
# the check has always demanded (int64 / uint32 arrays): a TypeError for one of these is a violation
STRICT_FORMS = {"list", "tuple", "np-int32", "np-int64", "np-uint32", "np-strided-int32", "np-readonly-int32",
                "range", "np-empty-int32"}


def _is_progression(lst):
    if len(lst) < 2:
        return None
    step = lst[1] - lst[0]
    if step == 0:
        return None
    if all(lst[j + 1] - lst[j] == step for j in range(len(lst) - 1)):
        return step
    return None


LOWLEVEL_FORMS = ["list", "tuple", "np-int32", "np-strided-int32", "np-readonly-int32"]


def id_array_form(rng, lst, plain=False, lowlevel=False):
    """One of the many ways a caller can spell a list of int32 ids.  Returns (tag, object).  `lst` is a Python
    list of ints; values outside int32 are only ever passed as list / int64 array (the Python layer must refuse
    them with OverflowError before C sees them)."""
    lst = list(lst)
    if plain:
        return "list", lst
    if lowlevel:
        # the extension module converts with numpy's "safe" rule: only what fits int32 by type
        if lst and (min(lst) < -2 ** 31 or max(lst) > 2 ** 31 - 1):
            return "list", lst
        if not lst:
            return rng.choice([("list", []), ("np-empty-int32", np.array([], dtype=np.int32))])
        forms = list(LOWLEVEL_FORMS)
        tag = rng.choice(forms)
        return tag, _make_form(tag, lst, None)
    if not lst:
        tag = rng.choice(["list", "tuple", "np-empty-float64", "np-empty-int32", "np-empty-int64", "np-empty-uint8"])
        if tag == "list":
            return tag, []
        if tag == "tuple":
            return tag, ()
        return tag, np.array([], dtype=tag.split("-")[-1])
    lo, hi = min(lst), max(lst)
    if lo < -2 ** 31 or hi > 2 ** 31 - 1:
        return rng.choice([("list", lst), ("np-int64", np.array(lst, dtype=np.int64))])
    forms = ["list", "list", "tuple", "np-int32", "np-int32", "np-int64", "np-strided-int32", "np-strided-int64",
             "np-readonly-int32", "array.array", "list-of-np-int64", "np-bigendian-int32", "np-bigendian-int64"]
    if lo >= 0:
        forms += ["np-uint32", "np-uint64"]
        if hi < 2 ** 16:
            forms.append("np-uint16")
        if hi < 2 ** 8:
            forms.append("np-uint8")
    if -2 ** 15 <= lo and hi < 2 ** 15:
        forms.append("np-int16")
    if -2 ** 7 <= lo and hi < 2 ** 7:
        forms.append("np-int8")
    step = _is_progression(lst)
    if step is not None:
        forms += ["range", "range", "range"]
    tag = rng.choice(forms)
    return tag, _make_form(tag, lst, step)


def _make_form(tag, lst, step):
    if tag == "list":
        return lst
    if tag == "tuple":
        return tuple(lst)
    if tag == "range":
        return range(lst[0], lst[-1] + (1 if step > 0 else -1), step)
    if tag == "array.array":
        return array.array("i", lst)
    if tag == "list-of-np-int64":
        return [np.int64(x) for x in lst]
    if tag.startswith("np-strided-"):
        dt = np.dtype(tag.split("-")[-1])
        buf = np.full(2 * len(lst) + 1, -7, dtype=dt)
        buf[1::2] = lst
        return buf[1::2]
    if tag == "np-readonly-int32":
        a = np.array(lst, dtype=np.int32)
        a.setflags(write=False)
        return a
    if tag.startswith("np-bigendian-"):
        return np.array(lst, dtype=">i4" if tag.endswith("int32") else ">i8")
    return np.array(lst, dtype=tag.split("-")[-1])


SUBSET_FORMS = {
    "ll": ["kw", "positional", "kw-omit-defaults", "mixed"],
    # TreeSequence.subset(nodes, record_provenance=True, reorder_populations=True, remove_unreferenced=True)
    "ts": ["kw", "kw-omit-defaults", "kw-omit-defaults", "record-positional", "nodes-kw", "kw-shuffled",
           "all-positional", "all-positional", "three-positional"],
    # TableCollection.subset(nodes, record_provenance=True, *, reorder_populations=None, remove_unreferenced=None):
    # None means "the default", which is documented as True
    "tables": ["kw", "kw-omit-defaults", "kw-omit-defaults", "record-positional", "nodes-kw", "kw-shuffled",
               "none-for-default", "none-for-default"],
}


def subset_call(rng, tag, variant, obj, arg, record, reorder, remove):
    """Spell obj.subset(...) in one of the equivalent ways (tag from SUBSET_FORMS[variant]).  variant: 'ts'
    (returns a tree sequence), 'tables' (in place), 'll' (low-level table collection: no sort, no provenance)."""
    if variant == "ll":
        if tag == "kw":
            return obj.subset(arg, reorder_populations=reorder, remove_unreferenced=remove)
        if tag == "positional":
            return obj.subset(arg, reorder, remove)
        if tag == "mixed":
            return obj.subset(arg, reorder, remove_unreferenced=remove)
        kw = {}
        if not reorder:
            kw["reorder_populations"] = False
        if not remove:
            kw["remove_unreferenced"] = False
        return obj.subset(arg, **kw)
    kw = dict(record_provenance=record, reorder_populations=reorder, remove_unreferenced=remove)
    if tag == "kw":
        return obj.subset(arg, **kw)
    if tag == "kw-omit-defaults":
        return obj.subset(arg, **{k: v for k, v in kw.items() if not v})
    if tag == "record-positional":
        return obj.subset(arg, record, reorder_populations=reorder, remove_unreferenced=remove)
    if tag == "nodes-kw":
        return obj.subset(nodes=arg, **kw)
    if tag == "kw-shuffled":
        items = list(kw.items())
        rng.shuffle(items)
        return obj.subset(arg, **dict(items))
    if tag == "all-positional":
        return obj.subset(arg, record, reorder, remove)
    if tag == "three-positional":
        return obj.subset(arg, record, reorder, remove_unreferenced=remove)
    if tag == "none-for-default":
        return obj.subset(arg, record_provenance=record, reorder_populations=None if reorder else False,
                          remove_unreferenced=None if remove else False)
    raise ValueError(tag)


UNION_FORMS = {
    # _tskit.TableCollection.union(other, other_node_mapping, check_shared_equality=True, add_populations=True)
    "ll": ["kw", "positional", "kw-omit-defaults", "mixed"],
    "py": ["kw", "kw-omit-defaults", "kw-omit-defaults", "all-positional", "all-positional", "check-positional",
           "two-positional", "all-kw", "kw-shuffled"],
}


def union_call(rng, tag, variant, obj, other, mapping, check, add_pops, record):
    """Spell obj.union(...) in one of the equivalent ways (tag from UNION_FORMS['ll' or 'py'])."""
    if variant == "ll":
        if tag == "kw":
            return obj.union(other, mapping, check_shared_equality=check, add_populations=add_pops)
        if tag == "positional":
            return obj.union(other, mapping, check, add_pops)
        if tag == "mixed":
            return obj.union(other, mapping, check, add_populations=add_pops)
        kw = {}
        if not check:
            kw["check_shared_equality"] = False
        if not add_pops:
            kw["add_populations"] = False
        return obj.union(other, mapping, **kw)
    kw = dict(check_shared_equality=check, add_populations=add_pops, record_provenance=record)
    if tag == "kw":
        return obj.union(other, mapping, **kw)
    if tag == "kw-omit-defaults":
        return obj.union(other, mapping, **{k: v for k, v in kw.items() if not v})
    if tag == "all-positional":
        return obj.union(other, mapping, check, add_pops, record)
    if tag == "check-positional":
        return obj.union(other, mapping, check, add_populations=add_pops, record_provenance=record)
    if tag == "two-positional":
        return obj.union(other, mapping, check, add_pops, record_provenance=record)
    if tag == "all-kw":
        return obj.union(other=other, node_mapping=mapping, **kw)
    if tag == "kw-shuffled":
        items = list(kw.items())
        rng.shuffle(items)
        return obj.union(other, mapping, **dict(items))
    raise ValueError(tag)


# =========================================================================== crash isolation


def run_forked(fn, timeout=100):
    """Run fn() in a forked child so that a sanitizer abort inside it does not take the worker down (each worker
    restart costs a full quick-tier budget).  Returns ("ok", value), ("died", description, sanitizer report) or
    ("timeout", None, None).  fn must return something picklable and do its own exception handling."""
    import os
    import pickle
    import re
    import select
    import signal
    import tempfile
    import time

    r, w = os.pipe()
    errf = tempfile.TemporaryFile()
    pid = os.fork()
    if pid == 0:
        code = 1
        try:
            os.close(r)
            os.dup2(errf.fileno(), 2)
            out = pickle.dumps(("ok", fn(), None))
            with os.fdopen(w, "wb") as f:
                f.write(out)
            code = 0
        finally:
            os._exit(code)
    os.close(w)
    chunks = []
    deadline = time.time() + timeout
    with os.fdopen(r, "rb") as f:
        while True:
            left = deadline - time.time()
            if left <= 0:
                os.kill(pid, signal.SIGKILL)
                os.waitpid(pid, 0)
                return "timeout", None, None
            if select.select([f], [], [], min(left, 1.0))[0]:
                b = os.read(f.fileno(), 1 << 16)
                if not b:
                    break
                chunks.append(b)
    _, status = os.waitpid(pid, 0)
    if os.WIFEXITED(status) and os.WEXITSTATUS(status) == 0 and chunks:
        return pickle.loads(b"".join(chunks))
    errf.seek(0)
    text = errf.read().decode(errors="replace")
    m = re.search(r"ERROR: AddressSanitizer: ([\w-]+)", text)
    u = re.search(r"runtime error: ([^\n]*)", text)
    frames = [x for x in re.findall(r"#\d+ 0x[0-9a-f]+ in (\w+) [^\n]*?/(?:c/tskit|python)/", text)
              if not x.startswith("__")]
    kind = f"asan/{m.group(1)}" if m else ("ubsan" if u else (
        f"signal-{os.WTERMSIG(status)}" if os.WIFSIGNALED(status) else f"exit-{os.WEXITSTATUS(status)}"))
    desc = f"{kind}/{frames[0] if frames else '?'}"
    pos = m.start() if m else (u.start() if u else 0)
    return "died", desc, text[max(0, pos - 100):pos + 1800]


# =========================================================================== top-level data and schemas

TABLE_NAMES = ("nodes", "edges", "sites", "mutations", "individuals", "populations", "migrations")


def top_params(rng):
    """What decorate_top will put on a table collection (chosen once, applied to self and other alike)."""
    # permissive schemas: C never decodes rows; the harness reads raw bytes only
    sj = '{"codec":"json"}'
    ss = '{"codec":"json","type":"object"}'
    p = {"schemas": {}, "metadata": None, "time_units": None, "refseq": None}
    for t in TABLE_NAMES:
        if rng.random() < 0.7:
            p["schemas"][t] = rng.choice([sj, ss])
    if rng.random() < 0.7:
        p["metadata"] = {"name": "c14", "x": [rng.randint(0, 99), 2.5], "s": "é"}
    if rng.random() < 0.7:
        p["time_units"] = rng.choice(["generations", "ticks", "years", "uncalibrated", ""])
    if rng.random() < 0.6:
        p["refseq"] = {"data": rng.choice(["", "ACGT" * rng.randint(1, 40), "N" * 70000]),
                       "url": rng.choice(["", "http://example.org/ref.fa"]),
                       "metadata": rng.choice([None, {"assembly": "x1"}])}
    return p


def decorate_top(tc, p):
    for t, s in p["schemas"].items():
        getattr(tc, t).metadata_schema = tskit.MetadataSchema(json.loads(s))
    if p["metadata"] is not None:
        tc.metadata_schema = tskit.MetadataSchema({"codec": "json"})
        tc.metadata = p["metadata"]
    if p["time_units"] is not None:
        tc.time_units = p["time_units"]
    r = p["refseq"]
    if r is not None:
        rs = tc.reference_sequence
        if r["metadata"] is not None:
            rs.metadata_schema = tskit.MetadataSchema({"codec": "json"})
            rs.metadata = r["metadata"]
        rs.data = r["data"]
        rs.url = r["url"]
    return tc


def top_snapshot(tc):
    """Everything a table collection holds besides table rows and provenance."""
    snap = {"sequence_length": float(tc.sequence_length), "metadata": bytes(tc.metadata_bytes),
            "metadata_schema": repr(tc.metadata_schema), "time_units": tc.time_units}
    for t in TABLE_NAMES:
        snap["schema:" + t] = repr(getattr(tc, t).metadata_schema)
    if tc.has_reference_sequence():
        rs = tc.reference_sequence
        snap["refseq"] = (rs.data, rs.url, bytes(rs.metadata_bytes), repr(rs.metadata_schema))
    else:
        snap["refseq"] = None
    return snap


def snapshot_diff(before, after):
    return [f"{k}: {str(before[k])[:80]!r} -> {str(after.get(k))[:80]!r}" for k in before if before[k] != after.get(k)]


# =========================================================================== exact (unsorted) comparison


def diff_exact(got, exp, tables=("nodes", "edges", "sites", "mutations", "populations")):
    """Row-for-row comparison, order included (the C documentation of tsk_table_collection_subset: 'Retained
    individuals, edges, mutations, and sites appear in the same order as in the original tables'; nodes in the
    listed order; populations in first-seen order).  Individuals are compared separately (EITHER zone E1)."""
    out = []
    if got.L != exp.L:
        out.append(("sequence_length", f"{got.L} expected {exp.L}"))
    for name in tables:
        g, e = getattr(got, name), getattr(exp, name)
        if g != e:
            msg = f"{len(g)} rows, expected {len(e)}"
            for j in range(min(len(g), len(e))):
                if g[j] != e[j]:
                    msg += f"; row {j}: got {str(g[j])[:300]} expected {str(e[j])[:300]}"
                    break
            out.append((name, msg))
    return out


# =========================================================================== >= 256 rows per table


def big_model(rng):
    """A valid, migration-free tree sequence in which EVERY table has more than 256 rows, some node has more
    than 256 children, one individual owns more than 256 nodes, and ids above 255 are referenced from every
    referring column.  Shapes: star, levels, chain (depth > 256)."""
    m = RowModel()
    shape = rng.choice(["star", "levels", "levels", "chain"])
    n = rng.randint(300, 420)
    m.L = 16.0
    # logical order: index 0 is the oldest
    if shape == "star":
        level = [1] + [0] * (n - 1)
    elif shape == "chain":
        level = [n - 1 - j for j in range(n)]
    else:
        w = rng.choice([2, 7, 40, 140])
        level = [(n - 1 - j) // w for j in range(n)]
    top = max(level)
    by_level = {}
    for j, lv in enumerate(level):
        by_level.setdefault(lv, []).append(j)
    perm = list(range(n))
    rng.shuffle(perm)                      # logical index -> node id
    times = [0.0] * n
    for j in range(n):
        times[perm[j]] = float(level[j]) / 2
    npop = rng.randint(260, 300)
    nind = rng.randint(260, 300)
    fat = rng.randrange(nind)              # the individual that owns very many nodes
    nodes = []
    for u in range(n):
        pop = rng.randrange(npop) if rng.random() < 0.85 else NULL
        r = rng.random()
        ind = fat if r < 0.3 and shape != "chain" else (rng.randrange(nind) if r < 0.9 else NULL)
        fl = NODE_IS_SAMPLE if times[u] == 0.0 or rng.random() < 0.05 else 0
        nodes.append((fl, times[u], pop, ind, b"n%d" % u if rng.random() < 0.8 else b""))
    if shape == "chain":
        # a deep chain has one node per level; hang the "fat" individual on 260 of them
        for u in rng.sample(range(n), 260):
            fl, t, pop, ind, md = nodes[u]
            nodes[u] = (fl, t, pop, fat, md)
    m.nodes = nodes

    def rand_parent(j):
        lv = level[j]
        if lv == top:
            return NULL
        return perm[rng.choice(by_level[lv + 1])]

    bounds = rng.choice([[0.0, 16.0], [0.0, 6.5, 16.0], [0.0, 4.0, 11.0, 16.0]])
    par = {perm[j]: rand_parent(j) for j in range(n)}
    start = {u: 0.0 for u in range(n)}
    edges = []
    for i in range(1, len(bounds)):
        last = i == len(bounds) - 1
        new = dict(par)
        if not last:
            for j in rng.sample(range(n), 25):
                new[perm[j]] = rand_parent(j)
        for u in range(n):
            if last or new[u] != par[u]:
                if par[u] != NULL:
                    edges.append((start[u], bounds[i], par[u], u, b"e%d" % len(edges) if rng.random() < 0.5 else b""))
                start[u] = bounds[i]
        par = new
    m.edges = sorted(edges, key=sort_edges_key(m))
    m.populations = [(b"p%d" % p if rng.random() < 0.9 else b"",) for p in range(npop)]
    inds = []
    for i in range(nind):
        k = rng.choice([0, 0, 1, 2])
        pars = tuple(rng.choice([NULL] + [rng.randrange(i)]) if i else NULL for _ in range(k))
        loc = tuple(rng.randint(-4, 4) / 2 for _ in range(rng.choice([0, 0, 1, 3])))
        inds.append((rng.choice([0, 1, 1 << 20]), loc, pars, b"i%d" % i if rng.random() < 0.8 else b""))
    m.individuals = inds
    ns = rng.randint(260, 300)
    positions = sorted(rng.sample(range(1024), ns))
    known = rng.random() < 0.4
    sites, muts = [], []
    from lib.model import forest
    forests = {}
    for j, q in enumerate(positions):
        pos = q * m.L / 1024
        sites.append((pos, rng.choice("ACGT"), b"s%d" % j if rng.random() < 0.5 else b""))
        k = rng.choice([0, 1, 1, 1, 2, 3])
        seg = max(b for b in bounds if b <= pos)
        if seg not in forests:
            forests[seg] = forest(m, pos)
        fr = forests[seg]
        lst = []
        for _ in range(k):
            u = rng.randrange(n)
            if known:
                p = fr.par(u)
                lo = times[u]
                hi = times[p] if p != NULL else lo + 2.0
                t = lo + rng.randint(0, 7) * (hi - lo) / 8
            else:
                t = None
            lst.append((u, rng.choice("ACGT"), t))
        if known:
            lst.sort(key=lambda z: (-z[2], -times[z[0]]))
        else:
            lst.sort(key=lambda z: -times[z[0]])
        for u, d, t in lst:
            muts.append((j, u, d, NULL, t, b"m%d" % len(muts) if rng.random() < 0.5 else b""))
    m.sites = sites
    m.mutations = muts
    par_ = mutation_parents(m)
    m.mutations = [(s, u, d, par_[k], t, md) for k, (s, u, d, _, t, md) in enumerate(m.mutations)]
    m.tags = {"big", "big:" + shape, "individuals", "populations", "metadata"}
    if known:
        m.tags.add("mutation-times")
    return m


# =========================================================================== > 64 KiB ragged entries


def widen(rng, m):
    """Blow single ragged entries of a (small, valid) model up beyond 64 KiB, in every ragged column that
    subset/union copy: the column as a whole and single entries exceed 65535 bytes / elements, and one
    individual gets more than 256 parents."""
    big = lambda tag, k: (tag * (k // len(tag) + 1))[:k]  # noqa: E731
    which = set()

    def some(rows):
        if not rows:
            return []
        return rng.sample(range(len(rows)), min(len(rows), rng.choice([1, 1, 2])))

    for j in some(m.nodes):
        fl, t, p, i, md = m.nodes[j]
        m.nodes[j] = (fl, t, p, i, big(b"node-%d/" % j, rng.choice([65536, 70001])))
        which.add("nodes.metadata")
    for j in some(m.edges):
        l, r, p, c, md = m.edges[j]
        m.edges[j] = (l, r, p, c, big(b"edge-%d/" % j, rng.choice([65535, 66000])))
        which.add("edges.metadata")
    for j in some(m.sites):
        pos, a, md = m.sites[j]
        if rng.random() < 0.5:
            m.sites[j] = (pos, big("ACGT%d" % j, 65537), md)
            which.add("sites.ancestral_state")
        else:
            m.sites[j] = (pos, a, big(b"site-%d/" % j, 65600))
            which.add("sites.metadata")
    for j in some(m.mutations):
        s, u, d, p, t, md = m.mutations[j]
        if rng.random() < 0.5:
            m.mutations[j] = (s, u, big("TG%dA" % j, 66001), p, t, md)
            which.add("mutations.derived_state")
        else:
            m.mutations[j] = (s, u, d, p, t, big(b"mut-%d/" % j, 65536))
            which.add("mutations.metadata")
    for j in some(m.individuals):
        fl, loc, par, md = m.individuals[j]
        r = rng.random()
        if r < 0.35:
            loc = tuple(float(x % 97) / 4 for x in range(8200 + j))       # > 64 KiB of doubles
            which.add("individuals.location")
        elif r < 0.7:
            # > 256 parents (ids smaller than j keep the table ordered; NULLs are legal anywhere)
            par = tuple((rng.randrange(j) if j and rng.random() < 0.7 else NULL) for _ in range(rng.choice([257, 300])))
            which.add("individuals.parents>256")
        else:
            md = big(b"ind-%d/" % j, 65540)
            which.add("individuals.metadata")
        m.individuals[j] = (fl, loc, par, md)
    for j in some(m.populations):
        m.populations[j] = (big(b"pop-%d/" % j, 65536 + j),)
        which.add("populations.metadata")
    m.tags = set(m.tags) | {"wide"}
    return which


# =========================================================================== > 65535 rows (numpy)


def ragged_take(data, off, idx):
    """Rows idx of a ragged column -> (flat data, int64 offsets)."""
    off = np.asarray(off, dtype=np.int64)
    idx = np.asarray(idx, dtype=np.int64)
    lens = off[idx + 1] - off[idx]
    newoff = np.zeros(len(idx) + 1, dtype=np.int64)
    np.cumsum(lens, out=newoff[1:])
    total = int(newoff[-1])
    if total == 0:
        return data[:0].copy(), newoff
    src = np.repeat(off[idx] - newoff[:-1], lens) + np.arange(total, dtype=np.int64)
    return data[src], newoff


def _ragged_random(g, n, lo, hi, values):
    lens = g.integers(lo, hi + 1, n)
    off = np.zeros(n + 1, dtype=np.uint64)
    off[1:] = np.cumsum(lens)
    data = values(int(off[-1]))
    return data, off


def huge_columns(g, law=False):
    """Raw columns of a table collection in which every table (but migrations/provenances) has more than 65535
    rows, and more than 65535 of them survive a subset that drops a few hundred nodes.  Three time levels:
    R roots (time 2), N1 inner nodes (time 1), leaves (time 0).  With law=True the instance also satisfies the
    independence precondition of the split/rejoin law for the cover A = {time >= 1}, B / C = leaves by parity of
    a random bit: individuals and populations are drawn from per-part pools, individual parents stay inside
    (pool A or own pool, smaller id), mutation parents are the true ones."""
    N = 72000 + int(g.integers(0, 2500))
    R = int(g.integers(1, 40))
    N1 = 2000 + int(g.integers(0, 500))
    L = float(2 ** 17)
    time = np.zeros(N)
    time[:R] = 2.0
    time[R:R + N1] = 1.0
    parent_of = np.full(N, -1, dtype=np.int64)
    parent_of[R:R + N1] = g.integers(0, R, N1)
    parent_of[R + N1:] = g.integers(0, R + N1, N - R - N1)
    flags = np.where(time == 0.0, 1, 0).astype(np.uint32)
    part = np.zeros(N, dtype=np.int8)                  # 0 = A (old), 1 = B (few), 2 = C (> 65535 leaves)
    part[R + N1:] = np.where(g.random(N - R - N1) < 0.03, 1, 2)
    byte = lambda k: g.integers(0, 256, k).astype(np.uint8).view(np.int8)  # noqa: E731
    c = {}
    # ---- individuals and populations: more than 65535 rows, more than 65535 of them referenced
    NI = N - 2500
    NP = N - 3000
    POOL_A = 1500

    def pool_of(ids):
        """ids below POOL_A belong to part A; of the others every 32nd to B, the rest to C"""
        return np.where(ids < POOL_A, 0, np.where((ids - POOL_A) % 32 == 0, 1, 2))

    if law:
        def pooled(npool):
            ids = np.full(N, -1, dtype=np.int64)
            isA = part == 0
            ids[isA] = g.integers(0, POOL_A, int(isA.sum()))
            allids = np.arange(POOL_A, npool)
            pools = pool_of(allids)
            for q in (1, 2):
                sel = np.where(part == q)[0]
                cand = allids[pools == q]
                # every pooled id once while they last (so that > 65535 are referenced), then random ones
                k = min(len(sel), len(cand))
                pick = g.permutation(cand)[:k]
                if len(sel) > k:
                    pick = np.concatenate([pick, g.choice(cand, len(sel) - k)])
                ids[sel] = pick
            return ids
        individual = pooled(NI)
        population = pooled(NP)
    else:
        individual = g.permutation(N) % NI
        population = g.permutation(N) % NP
    null_i = g.random(N) < 0.01
    null_p = g.random(N) < 0.01
    individual = np.where(null_i, -1, individual).astype(np.int32)
    population = np.where(null_p, -1, population).astype(np.int32)
    md, mdo = _ragged_random(g, N, 0, 3, byte)
    c["nodes"] = dict(flags=flags, time=time, population=population, individual=individual, metadata=md,
                      metadata_offset=mdo)
    iflags = g.integers(0, 4, NI).astype(np.uint32)
    loc, loco = _ragged_random(g, NI, 0, 2, lambda k: g.integers(-8, 9, k) / 4)
    plen = g.integers(0, 3, NI)
    poff = np.zeros(NI + 1, dtype=np.uint64)
    poff[1:] = np.cumsum(plen)
    owner = np.repeat(np.arange(NI), plen)
    if law:
        # parent: NULL, or a smaller id of pool A, or a smaller id of the owner's own pool
        r = g.random(len(owner))
        pa = np.minimum(g.integers(0, POOL_A, len(owner)), owner - 1)
        own = owner - g.integers(1, 4000, len(owner))
        own_ok = (own >= 0) & (pool_of(np.maximum(own, 0)) == pool_of(owner))
        par = np.where(r < 0.3, -1, np.where((r < 0.65) | ~own_ok, pa, own))
        par = np.where(par < 0, -1, par)
    else:
        par = g.integers(-1, NI, len(owner))
        par = np.where(par == owner, -1, par)          # an individual cannot be its own parent
    imd, imdo = _ragged_random(g, NI, 0, 3, byte)
    c["individuals"] = dict(flags=iflags, location=loc.astype(np.float64), location_offset=loco,
                            parents=par.astype(np.int32), parents_offset=poff, metadata=imd, metadata_offset=imdo)
    pmd, pmdo = _ragged_random(g, NP, 1, 3, byte)
    c["populations"] = dict(metadata=pmd, metadata_offset=pmdo)
    # ---- edges: one per non-root node; 10% split in two halves
    child = np.arange(R, N, dtype=np.int64)
    par_e = parent_of[R:]
    split = g.random(len(child)) < 0.1
    child = np.concatenate([child, child[split]])
    par_e = np.concatenate([par_e, par_e[split]])
    left = np.concatenate([np.zeros(N - R), np.full(int(split.sum()), L / 2)])
    right = np.concatenate([np.where(split, L / 2, L), np.full(int(split.sum()), L)])
    order = np.lexsort((left, child, par_e, time[par_e]))
    emd, emdo = _ragged_random(g, len(child), 0, 2, byte)
    c["edges"] = dict(left=left[order], right=right[order], parent=par_e[order].astype(np.int32),
                      child=child[order].astype(np.int32), metadata=emd, metadata_offset=emdo)
    # ---- sites and mutations
    NS = 68000 + int(g.integers(0, 500))
    position = np.arange(NS, dtype=np.float64)
    anc, anco = _ragged_random(g, NS, 0, 2, lambda k: np.frombuffer(b"ACGT", dtype=np.int8)[g.integers(0, 4, k)])
    smd, smdo = _ragged_random(g, NS, 0, 2, byte)
    c["sites"] = dict(position=position, ancestral_state=anc, ancestral_state_offset=anco, metadata=smd,
                      metadata_offset=smdo)
    extra = np.sort(g.choice(NS, 3000, replace=False))
    if law:
        # first mutation of a site on a random leaf's parent (or any node); the extra mutation of a site sits on a
        # leaf whose parent carries the first one, so its true parent is that first mutation
        leaf = g.integers(R + N1, N, NS)
        first_node = np.where(g.random(NS) < 0.5, parent_of[leaf], g.integers(0, N, NS))
        has_extra = np.zeros(NS, dtype=bool)
        has_extra[extra] = True
        first_node = np.where(has_extra, parent_of[leaf], first_node)
        site = np.concatenate([np.arange(NS), extra])
        node = np.concatenate([first_node, leaf[extra]])
        is_extra = np.concatenate([np.zeros(NS, dtype=bool), np.ones(len(extra), dtype=bool)])
        o = np.lexsort((is_extra, site))
        site, node, is_extra = site[o], node[o], is_extra[o]
        mparent = np.where(is_extra, np.arange(len(site)) - 1, -1)
    else:
        site = np.sort(np.concatenate([np.arange(NS), extra]))
        node = g.integers(0, N, len(site))
        same = np.concatenate([[False], site[1:] == site[:-1]])
        mparent = np.where(same & (g.random(len(site)) < 0.6), np.arange(len(site)) - 1, -1)
    NM = len(site)
    der, dero = _ragged_random(g, NM, 0, 2, lambda k: np.frombuffer(b"ACGT", dtype=np.int8)[g.integers(0, 4, k)])
    mmd, mmdo = _ragged_random(g, NM, 0, 2, byte)
    c["mutations"] = dict(site=site.astype(np.int32), node=node.astype(np.int32), parent=mparent.astype(np.int32),
                          time=np.full(NM, tskit.UNKNOWN_TIME), derived_state=der, derived_state_offset=dero,
                          metadata=mmd, metadata_offset=mmdo)
    c["L"] = L
    c["part"] = part
    return c


def columns_to_tables(c):
    tc = tskit.TableCollection(c["L"])
    for name in ("populations", "individuals", "nodes", "edges", "sites", "mutations"):
        getattr(tc, name).set_columns(**c[name])
    return tc


RAGGED_COLS = {
    "nodes": ("metadata",), "edges": ("metadata",), "sites": ("ancestral_state", "metadata"),
    "mutations": ("derived_state", "metadata"), "individuals": ("location", "parents", "metadata"),
    "populations": ("metadata",),
}
FIXED_COLS = {
    "nodes": ("flags", "time", "population", "individual"), "edges": ("left", "right", "parent", "child"),
    "sites": ("position",), "mutations": ("site", "node", "parent", "time"), "individuals": ("flags",),
    "populations": (),
}


def bad_offsets_np(tc):
    """[(table, column)] whose offsets do not start at 0, decrease, or do not end at the data length."""
    bad = []
    for name, cols in RAGGED_COLS.items():
        t = getattr(tc, name)
        for col in cols:
            off = np.asarray(getattr(t, col + "_offset")).astype(np.int64)
            ok = len(off) == t.num_rows + 1 and off[0] == 0 and bool(np.all(np.diff(off) >= 0))
            if ok:
                try:
                    ok = len(getattr(t, col)) == off[-1]
                except SystemError:
                    ok = False
            if not ok:
                bad.append((name, col))
    return bad


def table_columns(tc, name):
    t = getattr(tc, name)
    d = {}
    for col in FIXED_COLS[name]:
        d[col] = np.array(getattr(t, col))
    for col in RAGGED_COLS[name]:
        d[col] = np.array(getattr(t, col))
        d[col + "_offset"] = np.array(getattr(t, col + "_offset"))
    return d


def _take_rows(cols, name, idx):
    out = {}
    for col in FIXED_COLS[name]:
        out[col] = cols[col][idx]
    for col in RAGGED_COLS[name]:
        out[col], out[col + "_offset"] = ragged_take(cols[col], cols[col + "_offset"], idx)
    return out


def _first_seen(ids):
    """Distinct non-NULL ids in order of first appearance."""
    v = ids[ids >= 0]
    _, first = np.unique(v, return_index=True)
    return v[np.sort(first)].astype(np.int64)


def np_ref_subset(c, lst, reorder, remove):
    """Reference subset + documented sort on raw columns.  Returns (expected columns without the individual
    table and nodes.individual, list of candidate (individual table, nodes.individual) layouts [E1 x E2])."""
    lst = np.asarray(lst, dtype=np.int64)
    K = len(lst)
    N = len(c["nodes"]["time"])
    node_map = np.full(N, -1, dtype=np.int64)
    node_map[lst] = np.arange(K)
    exp = {}
    # populations
    NP = len(c["populations"]["metadata_offset"]) - 1
    if not reorder:
        pops = np.arange(NP, dtype=np.int64)
    else:
        pops = _first_seen(c["nodes"]["population"][lst])
        if not remove:
            seen = np.zeros(NP, dtype=bool)
            seen[pops] = True
            pops = np.concatenate([pops, np.where(~seen)[0]])
    pop_map = np.full(NP + 1, -1, dtype=np.int64)     # index -1 -> -1
    pop_map[pops] = np.arange(len(pops))
    exp["populations"] = _take_rows(c["populations"], "populations", pops)
    nd = _take_rows(c["nodes"], "nodes", lst)
    nd["population"] = pop_map[nd["population"]]
    src_ind = nd.pop("individual")
    exp["nodes"] = nd
    # edges
    e = c["edges"]
    np_, nc_ = node_map[e["parent"]], node_map[e["child"]]
    idx = np.where((np_ >= 0) & (nc_ >= 0))[0]
    newp, newc = np_[idx], nc_[idx]
    o = np.lexsort((e["left"][idx], newc, newp, nd["time"][newp]))
    ed = _take_rows(e, "edges", idx[o])
    ed["parent"], ed["child"] = newp[o], newc[o]
    exp["edges"] = ed
    # mutations and sites (input sorted by position / site, times unknown: the sort keeps the order)
    mu = c["mutations"]
    NM, NS = len(mu["site"]), len(c["sites"]["position"])
    midx = np.where(node_map[mu["node"]] >= 0)[0]
    mut_map = np.full(NM + 1, -1, dtype=np.int64)
    mut_map[midx] = np.arange(len(midx))
    if remove:
        used = np.zeros(NS, dtype=bool)
        used[mu["site"][midx]] = True
        sidx = np.where(used)[0]
    else:
        sidx = np.arange(NS)
    site_map = np.full(NS, -1, dtype=np.int64)
    site_map[sidx] = np.arange(len(sidx))
    exp["sites"] = _take_rows(c["sites"], "sites", sidx)
    md = _take_rows(mu, "mutations", midx)
    md["site"] = site_map[md["site"]]
    md["node"] = node_map[md["node"]]
    md["parent"] = mut_map[md["parent"]]
    exp["mutations"] = md
    # individuals: EITHER zones E1 (three layouts) x E2 (dangling parents dropped / NULLed)
    ic = c["individuals"]
    NI = len(ic["flags"])
    ref = np.zeros(NI, dtype=bool)
    ref[src_ind[src_ind >= 0]] = True
    refs_sorted = np.where(ref)[0]
    others = np.where(~ref)[0]
    first = _first_seen(src_ind)
    if remove:
        layouts = {"original": refs_sorted, "first-node": first}
    else:
        layouts = {"original": np.arange(NI, dtype=np.int64), "first-node": np.concatenate([first, others]),
                   "referenced-first": np.concatenate([refs_sorted, others])}
    cands = []
    for lname, kept in layouts.items():
        ind_map = np.full(NI + 1, -1, dtype=np.int64)
        ind_map[kept] = np.arange(len(kept))
        rows = _take_rows(ic, "individuals", kept)
        p = rows["parents"].astype(np.int64)
        newpar = ind_map[p]
        node_ind = ind_map[src_ind]
        for mode in ("drop", "null"):
            r2 = dict(rows)
            if mode == "null":
                r2["parents"] = newpar
            else:
                keep = ~((p >= 0) & (newpar < 0))
                lens = np.diff(rows["parents_offset"])
                owner = np.repeat(np.arange(len(kept)), lens)
                cnt = np.bincount(owner[keep], minlength=len(kept))
                off = np.zeros(len(kept) + 1, dtype=np.int64)
                off[1:] = np.cumsum(cnt)
                r2["parents"] = newpar[keep]
                r2["parents_offset"] = off
            cands.append((f"{lname}/{mode}", r2, node_ind))
    return exp, cands


def columns_diff(got, exp, name):
    """First differing column of one table (dicts of numpy arrays), or None."""
    for col, e in exp.items():
        g = got[col]
        if len(g) != len(e):
            return f"{name}.{col}: {len(g)} entries, expected {len(e)}"
        if e.dtype.kind == "f":
            same = (g == e) | (np.isnan(g) & np.isnan(e))
            if g.dtype.kind == "f" and name == "mutations" and col == "time":
                same = g.view(np.uint64) == np.asarray(e, dtype=np.float64).view(np.uint64)
        else:
            same = g.astype(np.int64) == e.astype(np.int64)
        if not bool(np.all(same)):
            j = int(np.where(~same)[0][0])
            return f"{name}.{col}[{j}]: got {g[j]} expected {e[j]}"
    return None


def relabel_nodes_columns(c, order):
    """Pure node relabelling on raw columns: new node k is old node order[k]."""
    order = np.asarray(order, dtype=np.int64)
    N = len(c["nodes"]["time"])
    nm = np.full(N, -1, dtype=np.int64)
    nm[order] = np.arange(len(order))
    out = {k: (dict(v) if isinstance(v, dict) else v) for k, v in c.items()}
    out["nodes"] = _take_rows(c["nodes"], "nodes", order)
    out["edges"]["parent"] = nm[c["edges"]["parent"]].astype(np.int32)
    out["edges"]["child"] = nm[c["edges"]["child"]].astype(np.int32)
    out["mutations"]["node"] = nm[c["mutations"]["node"]].astype(np.int32)
    for name in ("nodes",):
        for col in RAGGED_COLS[name]:
            out[name][col + "_offset"] = out[name][col + "_offset"].astype(np.uint64)
    return out
