"""C06 helpers (audit round): observables that lib.treecheck.observable_state leaves out, a reference for the
null state written from the documentation, argument forms for the navigation calls and the Tree constructor,
and structurally extreme inputs (hundreds of trees; hundreds of edges changing at one breakpoint).

Nothing here shares code with tskit: inputs are RowModels, references are computed from the rows.
"""
import math

import numpy as np

from lib.model import NODE_IS_SAMPLE, NULL, Forest, RowModel, sort_edges_key


# ---------------------------------------------------------------------- observables


def extra_state(tree, n):
    """Order-insensitive observables next to lib.treecheck.observable_state: the counters and totals that are read
    through other C entry points (num_sites is sites_length, not the site list; the traversal arrays start at the
    virtual root; the no-argument totals read the virtual root's counters)."""
    iv = tree.interval
    roots = list(tree.roots)
    lr = tree.left_root
    return {
        "num_sites": tree.num_sites,
        "num_mutations": tree.num_mutations,
        "iv_lr": (iv.left, iv.right),
        "span": tree.span,
        "virtual_root": tree.virtual_root,
        "root_threshold": tree.root_threshold,
        "tracked_total": tree.num_tracked_samples(),
        "samples_total": tree.num_samples(),
        "preorder": tuple(sorted(int(u) for u in tree.preorder())),
        "postorder": tuple(sorted(int(u) for u in tree.postorder())),
        "all_samples": tuple(sorted(tree.samples())),
        "left_root_ok": (lr == NULL and not roots) or lr in roots,
    }


def null_reference(tree, model, opts):
    """The null state as documented ("index of -1, and no edges"; "each sample is a root and there are no
    branches"): the forest without any edge.  With root_threshold > 1 no node subtends enough samples, so there
    are no roots (definition of root_threshold).  The interval of the null tree is not documented and is left to
    the fresh-tree comparison.  Returns [(key, msg)]."""
    bad = []
    n = model.num_nodes
    fr = Forest(model, {})
    thr = opts.get("root_threshold", 1)
    tracked = set(opts["tracked"]) if opts.get("tracked") is not None else set()
    if tree.index != -1:
        return [("index", f"index={tree.index} in the null state")]
    if tree.num_edges != 0:
        bad.append(("num_edges", f"num_edges={tree.num_edges} in the null state"))
    pa = [int(v) for v in tree.parent_array]
    if pa != [NULL] * (n + 1):
        bad.append(("parent", f"parent_array={pa} in the null state"))
    ea = [int(v) for v in tree.edge_array]
    if ea != [NULL] * (n + 1):
        bad.append(("edge_array", f"edge_array={ea} in the null state"))
    nc = [int(v) for v in tree.num_children_array[:n]]
    if any(nc):
        bad.append(("num_children", f"num_children_array={nc} in the null state"))
    exp_roots = fr.roots(thr)
    roots = list(tree.roots)
    if set(roots) != exp_roots or len(roots) != len(exp_roots) or tree.num_roots != len(exp_roots):
        bad.append(("roots", f"roots={roots} num_roots={tree.num_roots} in the null state, expected {sorted(exp_roots)} "
                    f"(root_threshold={thr})"))
    for u in range(n):
        s = 1 if model.is_sample(u) else 0
        if tree.num_samples(u) != s:
            bad.append(("num_samples", f"num_samples({u})={tree.num_samples(u)} in the null state, expected {s}"))
        t = 1 if (s and u in tracked) else 0
        if tree.num_tracked_samples(u) != t:
            bad.append(("num_tracked", f"num_tracked_samples({u})={tree.num_tracked_samples(u)} in the null state, "
                        f"expected {t} (tracked={sorted(tracked)})"))
        got = list(tree.samples(u))
        if got != ([u] if s else []):
            bad.append(("samples", f"samples({u})={got} in the null state"))
    ns = len(model.samples())
    if tree.num_samples(tree.virtual_root) != ns or tree.num_samples() != ns:
        bad.append(("num_samples", f"num_samples(virtual_root)={tree.num_samples(tree.virtual_root)} "
                    f"num_samples()={tree.num_samples()} expected {ns}"))
    if tree.num_tracked_samples(tree.virtual_root) != len(tracked) or tree.num_tracked_samples() != len(tracked):
        bad.append(("num_tracked", f"num_tracked_samples(virtual_root)={tree.num_tracked_samples(tree.virtual_root)} "
                    f"num_tracked_samples()={tree.num_tracked_samples()} expected {len(tracked)}"))
    if tree.num_sites != 0 or list(tree.sites()) != []:
        bad.append(("sites", f"num_sites={tree.num_sites} sites={[s.id for s in tree.sites()]} in the null state"))
    if float(tree.total_branch_length) != 0.0:
        bad.append(("total_branch_length", f"total_branch_length={tree.total_branch_length} in the null state"))
    return bad


# ---------------------------------------------------------------------- argument forms

SEEK_FORMS = ("kw", "np64", "np32", "int", "npint", "ll")
INDEX_FORMS = ("kw", "np32", "np64", "neg", "ll")


def seek_forms(x):
    """Forms in which position x can be passed without changing its value."""
    out = ["kw", "np64", "ll"]
    if not math.isnan(x) and float(np.float32(x)) == x:
        out.append("np32")
    if not math.isnan(x) and not math.isinf(x) and x == int(x) and abs(x) < 2 ** 53:
        out += ["int", "npint"]
    return out


def index_forms(i, T):
    out = ["kw"]
    if -2 ** 31 <= i < 2 ** 31:
        out += ["np32", "ll"]
    if -2 ** 63 <= i < 2 ** 63:
        out.append("np64")
    if 0 <= i < T:
        out.append("neg")
    return out


def call_nav(tree, op):
    """Perform one navigation call in the form named by op = (name, arg, form). Returns the call's return value."""
    name = op[0]
    form = op[2] if len(op) > 2 else "py"
    if name == "seek":
        x = op[1]
        if form == "py":
            return tree.seek(x)
        if form == "kw":
            return tree.seek(position=x)
        if form == "np64":
            return tree.seek(np.float64(x))
        if form == "np32":
            return tree.seek(np.float32(x))
        if form == "int":
            return tree.seek(int(x))
        if form == "npint":
            return tree.seek(np.int64(int(x)))
        if form == "ll":
            return tree._ll_tree.seek(x)
    if name == "seek_index":
        i = op[1]
        if form == "py":
            return tree.seek_index(i)
        if form == "kw":
            return tree.seek_index(index=i)
        if form == "np32":
            return tree.seek_index(np.int32(i))
        if form == "np64":
            return tree.seek_index(np.int64(i))
        if form == "neg":
            return tree.seek_index(i - tree.tree_sequence.num_trees)
        if form == "ll":
            return tree._ll_tree.seek_index(i)
    raise AssertionError(op)


def tracked_form(rng, tracked):
    """The same tracked sample set as list / tuple / numpy array / another order. Returns (form name, object)."""
    f = rng.choice(["list", "tuple", "int32", "int64", "reversed", "np-scalars"])
    if f == "tuple":
        return f, tuple(tracked)
    if f == "int32":
        return f, np.array(tracked, dtype=np.int32)
    if f == "int64":
        return f, np.array(tracked, dtype=np.int64)
    if f == "reversed":
        return f, list(reversed(tracked))
    if f == "np-scalars":
        return f, [np.int32(u) for u in tracked]
    return f, list(tracked)


# ---------------------------------------------------------------------- options


def boundary_threshold(rng, m):
    """A root_threshold exactly ON (or one above) the sample count of some root of some tree."""
    bps = m.breakpoints()
    i = rng.randrange(len(bps) - 1)
    fr = Forest(m, m.forest_at((bps[i] + bps[i + 1]) / 2))
    rs = sorted(fr.roots(1))
    if not rs:
        return 1
    return max(1, fr.num_samples(rng.choice(rs)) + rng.choice([0, 0, 1]))


# ---------------------------------------------------------------------- structurally extreme inputs


def _from_maps(times, flags, maps, bounds):
    """RowModel from one {child: parent} map per interval; equal consecutive parents are squashed into one edge."""
    m = RowModel(bounds[-1])
    n = len(times)
    m.nodes = [(flags[u], float(times[u]), NULL, NULL, b"") for u in range(n)]
    edges = []
    for u in range(n):
        start, cur = None, NULL
        for i, pm in enumerate(maps):
            p = pm.get(u, NULL)
            if p != cur:
                if cur != NULL:
                    edges.append((start, bounds[i], cur, u, b""))
                start, cur = bounds[i], p
        if cur != NULL:
            edges.append((start, bounds[-1], cur, u, b""))
    m.edges = sorted(edges, key=sort_edges_key(m))
    return m


def _plain_sites(rng, m, positions):
    """One site per position with 0-2 unparented-or-chained mutations of unknown time (valid by construction:
    mutations on one site are listed oldest node first and parented through lib.model.mutation_parents)."""
    from lib.model import mutation_parents
    sites, muts = [], []
    for j, pos in enumerate(sorted(set(positions))):
        sites.append((pos, "A", b""))
        lst = [rng.randrange(m.num_nodes) for _ in range(rng.choice([0, 1, 1, 2]))] if m.num_nodes else []
        lst.sort(key=lambda u: -m.time(u))
        for u in lst:
            muts.append((j, u, rng.choice("CGT"), NULL, None, b""))
    m.sites, m.mutations = sites, muts
    par = mutation_parents(m)
    m.mutations = [(s, u, d, par[k], t, md) for k, (s, u, d, _, t, md) in enumerate(m.mutations)]
    return m


def long_model(rng, ntrees):
    """Few nodes, MANY trees: every interval boundary changes at least one parent, so the tree count is ntrees
    (beyond 127 / 255 for the larger draws), with optional edge-free stretches at either end."""
    k = rng.randint(2, 4)  # leaves
    j = rng.randint(2, 4)  # older nodes
    n = k + j
    times = [0.0] * k + [float(i + 1) for i in range(j)]
    flags = [NODE_IS_SAMPLE] * k + [NODE_IS_SAMPLE if rng.random() < 0.2 else 0 for _ in range(j)]
    older = {u: [v for v in range(n) if times[v] > times[u]] for u in range(n)}
    scale = rng.choice([1.0, 0.5, 4.0])
    bounds = [i * scale for i in range(ntrees + 1)]
    cur = {u: rng.choice(older[u]) for u in range(n) if older[u]}
    lead = rng.choice([0, 0, 1, 3])
    tail = rng.choice([0, 0, 1, 2])
    maps = []
    for i in range(ntrees):
        if i < lead or i >= ntrees - tail:
            maps.append({})
            continue
        if maps and maps[-1]:
            cur = dict(maps[-1])
            for _ in range(rng.choice([1, 1, 2])):
                u = rng.randrange(n - 1)  # the oldest node never has a parent
                cand = [p for p in older[u] + [NULL] if p != cur.get(u, NULL)]
                p = rng.choice(cand)
                if p == NULL:
                    cur.pop(u, None)
                else:
                    cur[u] = p
            if cur == maps[-1]:  # two changes undid each other: force one
                u = 0
                cur[u] = [p for p in older[u] if p != cur.get(u, NULL)][0]
        maps.append(dict(cur))
    m = _from_maps(times, flags, maps, bounds)
    L = bounds[-1]
    pos = [rng.randrange(ntrees) * scale + rng.choice([0.0, scale / 2]) for _ in range(rng.randint(0, 8))]
    _plain_sites(rng, m, [p for p in pos if 0 <= p < L])
    m.tags.add("long")
    return m


def chain_model(rng):
    """A deep chain of SAMPLE nodes (every node an internal sample but the youngest) that is re-threaded at every
    breakpoint: one chain 0 <- 1 <- 2 ..., then two interleaved chains (u <- u + 2), and back."""
    d = rng.randint(90, 120)
    T = rng.choice([2, 3, 4])
    times = [float(u) for u in range(d)]
    flags = [NODE_IS_SAMPLE if (u < 2 or rng.random() < 0.8) else 0 for u in range(d)]
    maps = []
    for i in range(T):
        step = 1 if i % 2 == 0 else 2
        maps.append({u: u + step for u in range(d - step)})
    bounds = [float(i) for i in range(T + 1)]
    m = _from_maps(times, flags, maps, bounds)
    _plain_sites(rng, m, [0.25, float(T) - 0.25])
    m.tags.add("deep-sample-chain")
    return m


def wide_model(rng):
    """Hundreds of edges leave and enter at every breakpoint: w leaves hang under a, under b, under a ... in
    consecutive trees (w beyond 255).  One case in three: chain_model instead."""
    if rng.random() < 1 / 3:
        return chain_model(rng)
    w = rng.choice([257, 260, 300])
    T = rng.choice([2, 3, 4])
    n = w + 3
    times = [0.0] * w + [1.0, 1.0, 2.0]
    flags = [NODE_IS_SAMPLE] * w + [0, 0, 0]
    a, b, r = w, w + 1, w + 2
    maps = []
    for i in range(T):
        pm = {u: (a if (i % 2 == 0) else b) for u in range(w)}
        if rng.random() < 0.7:
            pm[a] = r
            pm[b] = r
        keep = rng.randrange(w)  # one leaf stays where it is, so not every edge changes
        pm[keep] = a
        maps.append(pm)
    bounds = [float(i) for i in range(T + 1)]
    m = _from_maps(times, flags, maps, bounds)
    _plain_sites(rng, m, [0.5, float(T) - 0.5])
    m.tags.add("wide")
    return m


def empty_models():
    """Whole tables empty: no nodes at all (one edge-free tree over [0, L) with sites but nothing to mutate), and
    samples without any edge."""
    out = []
    m = RowModel(2.0)
    m.sites = [(0.0, "A", b""), (1.5, "C", b"")]
    out.append(m)
    m = RowModel(4.0)
    m.nodes = [(1, 0.0, NULL, NULL, b""), (1, 0.0, NULL, NULL, b""), (0, 1.0, NULL, NULL, b"")]
    m.sites = [(0.0, "A", b""), (2.0, "C", b""), (3.5, "G", b"")]
    m.mutations = [(1, 0, "T", NULL, None, b""), (1, 0, "G", 0, None, b"")]
    out.append(m)
    return out


def kwargs_for(rng, opts, ctx, aliases=False):
    """Keyword arguments building a Tree with option set `opts`, in a randomly drawn argument form.  With
    aliases=True the deprecated spellings accepted by TreeSequence.trees() (hence aslist()) are used; a share of
    all forms adds the ignored sample_counts / leaf_counts argument ("not supported since 0.2.4 and is ignored",
    a RuntimeWarning: the caller suppresses warnings)."""
    kw = {}
    if rng.random() < 0.15:
        kw["leaf_counts" if aliases else "sample_counts"] = rng.choice([True, False])
        ctx.feature("start:ignored-sample_counts-argument")
    if opts["sample_lists"] or rng.random() < 0.5:
        kw["leaf_lists" if aliases else "sample_lists"] = opts["sample_lists"]
    if opts["root_threshold"] != 1 or rng.random() < 0.7:
        kw["root_threshold"] = opts["root_threshold"]
    if opts["tracked"] is not None:
        f, obj = tracked_form(rng, opts["tracked"])
        ctx.feature("tracked-form:" + f)
        kw["tracked_leaves" if aliases else "tracked_samples"] = obj
    return kw

