"""C18 audit extensions (lib/props/AUDIT-C18.md): the same Newick / nexus / FASTA behaviour reached through
other objects and argument forms, instances with node ids beyond 2^15 / 2^16 and node counts on the
digit boundaries of the label-size estimate, and a probe of the low-level writer with caller-sized buffers.

Nothing here knows how tskit produces its strings; the oracles stay in lib/props/c18.py.
"""
import io
import os
import pickle
import tempfile

import numpy as np
import tskit

from lib.model import NODE_IS_SAMPLE, NULL, RowModel, sort_edges_key

# ------------------------------------------------------------------------------- precision / argument forms

# every value the extension accepts (0..17) plus "left out"; the ends and the documented defaults are heavier
ALL_PRECISIONS = [None, None, None, None, 0, 0, 1, 1, 2, 3, 4, 5, 6, 6, 7, 8, 9, 10, 11, 12, 13, 14, 14, 15, 16, 16, 17, 17]

NP_INTS = [np.int32, np.int64, np.int8, np.uint8, np.int16, np.uint32]


def int_form(rng, ctx, v, what):
    """The same integer as a numpy scalar in a fixed share of the calls (tree.roots, ts.samples()[j] and
    array elements are numpy scalars in user code)."""
    if v is None or rng.random() >= 0.2:
        return v
    t = rng.choice(NP_INTS)
    if not (np.iinfo(t).min <= v <= np.iinfo(t).max):
        t = np.int64
    ctx.feature(f"arg:{what}:numpy")
    return t(v)


def newick_kwargs(rng, ctx, root, precision, fast):
    """Keyword dict for as_newick: values as Python / numpy ints, and the documented "None = default"
    spelled out for a share of the calls.  `fast`: the call is meant for the default-label path, so
    node_labels / include_branch_lengths may be given as None as well."""
    kw = {}
    if root is not None:
        kw["root"] = int_form(rng, ctx, root, "root")
    elif rng.random() < 0.25:
        kw["root"] = None
        ctx.feature("arg:root=None")
    if precision is not None:
        kw["precision"] = int_form(rng, ctx, precision, "precision")
    elif rng.random() < 0.25:
        kw["precision"] = None
        ctx.feature("arg:precision=None")
    if fast:
        r = rng.random()
        if r < 0.12:
            kw["node_labels"] = None
            ctx.feature("arg:node_labels=None")
        elif r < 0.24:
            kw["include_branch_lengths"] = None
            ctx.feature("arg:include_branch_lengths=None")
        elif r < 0.30:
            kw["include_branch_lengths"] = True
            ctx.feature("arg:include_branch_lengths=True")
    return kw


def show_kwargs(kw):
    return ", ".join(f"{k}={v!r}" if not isinstance(v, np.generic) else f"{k}={type(v).__name__}({v})" for k, v in kw.items())


# ------------------------------------------------------------------------------- tree objects


def tree_form(rng, ctx, ts, index, x, root_threshold=1, allow_options=True):
    """A tskit.Tree positioned on tree `index` (which covers x), reached in one of the public ways.
    Child order differs between them (the oracle compares children as multisets)."""
    T = ts.num_trees
    opt = {}
    if root_threshold != 1:
        opt["root_threshold"] = root_threshold
    if allow_options:
        r = rng.random()
        if r < 0.1:
            opt["sample_lists"] = True
            ctx.feature("tree-option:sample_lists")
        elif r < 0.2 and ts.num_samples > 0:
            smp = [int(u) for u in ts.samples()]
            opt["tracked_samples"] = rng.sample(smp, rng.randint(1, len(smp)))
            ctx.feature("tree-option:tracked_samples")
    forms = ["at", "at_index", "at_index-negative", "iter", "reversed", "copy", "seek", "seek_index", "step-back",
             "constructor-seek"]
    if index == 0:
        forms += ["first", "first"]
    if index == T - 1:
        forms += ["last", "last"]
    form = rng.choice(forms)
    ctx.feature("tree-form:" + form)
    if form == "at":
        tree = ts.at(x, **opt)
    elif form == "at_index":
        tree = ts.at_index(index, **opt)
    elif form == "at_index-negative":
        tree = ts.at_index(index - T, **opt)
    elif form == "first":
        tree = ts.first(**opt)
    elif form == "last":
        tree = ts.last(**opt)
    elif form == "iter":
        tree = None
        for t in ts.trees(**opt):
            if t.index == index:
                tree = t
                break
    elif form == "reversed":
        tree = None
        for t in reversed(ts.trees(**opt)):
            if t.index == index:
                tree = t
                break
    elif form == "copy":
        tree = ts.at_index(index, **opt).copy()
    elif form == "seek":
        tree = tskit.Tree(ts, **opt)
        if rng.random() < 0.5:
            tree.last()
        else:
            tree.first()
        tree.seek(x)
    elif form == "seek_index":
        tree = tskit.Tree(ts, **opt)
        if rng.random() < 0.5:
            tree.seek_index(rng.randrange(T))
        tree.seek_index(index)
    elif form == "constructor-seek":
        tree = tskit.Tree(ts, **opt)  # null state
        tree.seek(x)
    else:  # step-back: one past the wanted tree, then back (or forth when it is the last one)
        tree = tskit.Tree(ts, **opt)
        if index + 1 < T:
            tree.seek_index(index + 1)
            tree.prev()
        elif index > 0:
            tree.seek_index(index - 1)
            tree.next()
        else:
            tree.first()
            tree.next()  # off the end: null tree
            tree.first()
    return tree, form + (f" {opt}" if opt else "")


# ------------------------------------------------------------------------------- tree sequence objects


def ts_form(rng, ctx, ts, share=0.35):
    """The same tree sequence after a trip through a file, pickle or its tables (exports read the embedded
    reference sequence, the time / genome discreteness flags and the samples from the object)."""
    if rng.random() >= share:
        ctx.feature("ts-form:as-built")
        return ts
    form = rng.choice(["file", "fileobj", "pickle", "dump_tables", "reindexed", "load_tables-lowlevel-free"])
    ctx.feature("ts-form:" + form)
    if form == "file":
        fd, path = tempfile.mkstemp(prefix="c18-", suffix=".trees")
        os.close(fd)
        try:
            ts.dump(path)
            return tskit.load(path)
        finally:
            try:
                os.unlink(path)
            except OSError:
                pass
    if form == "fileobj":
        with tempfile.TemporaryFile(prefix="c18-") as f:  # dump needs a real file descriptor
            ts.dump(f)
            f.seek(0)
            return tskit.load(f)
    if form == "pickle":
        return pickle.loads(pickle.dumps(ts))
    if form == "dump_tables":
        return ts.dump_tables().tree_sequence()
    tc = ts.dump_tables()
    if form == "reindexed":
        tc.drop_index()
        tc.build_index()
        return tc.tree_sequence()
    return tskit.TableCollection.fromdict(tc.asdict()).tree_sequence()


# ------------------------------------------------------------------------------- wide instances

LABEL_EDGE_COUNTS = [9, 10, 11, 99, 100, 101, 999, 1000, 1001, 9999, 10000, 10001]
WIDE_COUNTS = [32769, 32770, 65536, 65537, 65600, 99999, 100000, 100001]
EDGE_IDS = [0, 8, 9, 10, 98, 99, 100, 998, 999, 1000, 9998, 9999, 10000, 32766, 32767, 32768, 65534, 65535, 65536,
            65537, 99998, 99999, 100000]


def build_wide(rng, gen_shape, assign_times, time_classes):
    """A node table of N rows (N on a digit boundary of the label-size estimate, or beyond 2^15 / 2^16) in which a
    small genealogy sits on the boundary ids and the highest ids; all other nodes are isolated.
    -> (RowModel, TreeSequence, ids of the genealogy)."""
    N = rng.choice(LABEL_EDGE_COUNTS if rng.random() < 0.5 else WIDE_COUNTS)
    n = min(N, rng.choice([2, 3, 5, 8, 12]))
    shape = rng.choice(["recursive", "chain", "star", "caterpillar", "binary", "ties"])
    parent, ranks = gen_shape(rng, n, shape)
    cls = rng.choice(time_classes)
    times = assign_times(rng, ranks, cls)
    cand = [i for i in EDGE_IDS if i < N] + [N - 1, N - 2, N - 1]
    cand = sorted(set(c for c in cand if c >= 0), reverse=True)
    ids = cand[:max(2, n // 2)]  # the highest ones always
    rest = [c for c in cand if c not in ids]
    rng.shuffle(rest)
    ids += rest[:n - len(ids)]
    while len(ids) < n:
        u = rng.randrange(N)
        if u not in ids:
            ids.append(u)
    ids = ids[:n]
    rng.shuffle(ids)
    kids = set(p for p in parent if p != NULL)
    sm = rng.choice(["leaves", "all", "mixed"])
    flags = np.zeros(N, dtype=np.uint32)
    tm = np.zeros(N, dtype=np.float64)
    for k in range(n):
        leaf = k not in kids
        s = leaf if sm == "leaves" else True if sm == "all" else (leaf or rng.random() < 0.5)
        flags[ids[k]] = NODE_IS_SAMPLE if s else 0
        tm[ids[k]] = times[k]
    extra = []
    if rng.random() < 0.25:
        # isolated samples elsewhere: several roots, as_newick() must refuse, root=u still works
        for _ in range(rng.randint(1, 3)):
            u = rng.randrange(N)
            if u not in ids:
                flags[u] = NODE_IS_SAMPLE
                extra.append(u)
    m = RowModel(1.0)
    fl, tl = flags.tolist(), tm.tolist()
    m.nodes = [(fl[u], tl[u], NULL, NULL, b"") for u in range(N)]
    m.edges = [(0.0, 1.0, ids[p], ids[c], b"") for c, p in enumerate(parent) if p != NULL]
    m.edges.sort(key=sort_edges_key(m))
    m.tags.update({"time:" + cls, "shape:" + shape, "samples:" + sm, "wide-node-table"})
    if N > 32768:
        m.tags.add("node-ids>=2^15")
    if N > 65536:
        m.tags.add("node-ids>=2^16")
    if N in LABEL_EDGE_COUNTS:
        m.tags.add("num_nodes-on-digit-boundary")
    tc = tskit.TableCollection(1.0)
    tc.nodes.set_columns(flags=flags, time=tm)
    for l, r, p, c, _ in m.edges:
        tc.edges.add_row(l, r, p, c)
    return m, tc.tree_sequence(), ids, extra


# ------------------------------------------------------------------------------- low-level writer, caller-sized buffers


def ll_probe(ctx, rng, tree, root, precision, legacy, expected, what, detail):
    """Tree._ll_tree.get_newick (the writer behind the fast path) with buffers around the exact size: it may
    refuse ("buffer too small") but must never hand back anything but the full string — and the sanitizer
    build sees every byte written past the buffer.  EITHER: which sizes up to len+2 are refused (the C API
    does not document whether the terminator / a spare byte is needed); a buffer of twice the length + 64
    must do."""
    ll = tree._ll_tree
    n = len(expected)
    sizes = sorted({1, 2, max(1, n // 2), max(1, n - 1), n, n + 1, n + 2, 2 * n + 64})
    for b in sizes:
        ctx.count("ll-tight-buffer")
        style = rng.randrange(3)
        try:
            if style == 0:
                got = ll.get_newick(root, precision, b, legacy)
            elif style == 1:
                got = ll.get_newick(root=root, precision=precision, buffer_size=b, legacy_ms_labels=legacy)
            else:
                got = ll.get_newick(root, buffer_size=b, precision=precision, legacy_ms_labels=bool(legacy))
        except tskit.LibraryError as e:
            if b >= 2 * n + 64:
                ctx.violation("newick/fast-path-buffer-too-small", f"low-level get_newick(root={root}, precision={precision}, "
                              f"buffer_size={b}, legacy_ms_labels={legacy}) raised {e} although {what} is {n} characters long", detail)
            elif "buffer" not in str(e).lower():
                ctx.violation("newick/ll-wrong-error", f"low-level get_newick(root={root}, precision={precision}, buffer_size={b}) "
                              f"raised LibraryError {e} (expected the buffer-too-small error or the string)", detail)
            else:
                ctx.feature("ll:buffer-refused" + (":len+1" if b == n + 1 else ":len" if b == n else ""))
            continue
        except Exception as e:
            ctx.violation(f"newick/ll-raises/{type(e).__name__}", f"low-level get_newick(root={root}, precision={precision}, "
                          f"buffer_size={b}) raised {type(e).__name__}: {e}", detail)
            continue
        if b == n + 1:
            ctx.feature("ll:exact-size-buffer-accepted")
        if got != expected:
            ctx.violation("newick/ll-short-buffer-wrong-string", f"low-level get_newick(root={root}, precision={precision}, "
                          f"buffer_size={b}, legacy_ms_labels={legacy}) returned {got[:200]!r} ({len(got)} chars); {what} "
                          f"returned {expected[:200]!r} ({n} chars)", detail)
    # documented defaults of the extension method: precision 14, buffer of 1024 bytes
    ctx.count("ll-defaults")
    try:
        got = ll.get_newick(root)
    except tskit.LibraryError as e:
        if "buffer" not in str(e).lower():
            ctx.violation("newick/ll-wrong-error", f"low-level get_newick({root}) raised {e}", detail)
        return None
    except Exception as e:
        ctx.violation(f"newick/ll-raises/{type(e).__name__}", f"low-level get_newick({root}) raised {type(e).__name__}: {e}", detail)
        return None
    return got


# ------------------------------------------------------------------------------- writers on user-owned files


class WriterContract(Exception):
    """The writer damaged a file object it was handed (closed it, lost what was in it)."""


PRE, POST = "## before\n", "## after\n"


def write_to_stream(fn, kw, how):
    """Hand write_nexus / write_fasta a file object that already holds text and is written to afterwards
    (several exports into one open file is the documented use of the file-object form)."""
    if how.endswith(":realfile"):
        fd, path = tempfile.mkstemp(prefix="c18-", suffix=".txt")
        os.close(fd)
        try:
            with open(path, "w", encoding="utf8") as f:
                f.write(PRE)
                fn(f, **kw)
                if f.closed:
                    raise WriterContract("the file object passed in was closed by the writer")
                f.write(POST)
            with open(path, encoding="utf8") as f:
                text = f.read()
        finally:
            try:
                os.unlink(path)
            except OSError:
                pass
    else:
        buf = io.StringIO()
        buf.write(PRE)
        fn(buf, **kw)
        if buf.closed:
            raise WriterContract("the StringIO passed in was closed by the writer")
        buf.write(POST)
        text = buf.getvalue()
    if not (text.startswith(PRE) and text.endswith(POST) and len(text) >= len(PRE) + len(POST)):
        raise WriterContract(f"text written around the call was lost or moved: {text[:80]!r} ... {text[-80:]!r}")
    return text[len(PRE):len(text) - len(POST)]
