"""C17 helpers added by the audit pass (lib/props/AUDIT-C17.md): call forms, boundary decorations, extreme inputs.

Nothing in here knows how tskit formats or parses a row: the forms only vary HOW dump_text / load_text / parse_*
are called (positional, keyword, defaults, one file per call, real files, write-only objects, the command line
wrappers), the decorations only put documented-valid values into a RowModel.  The oracles stay in c17.py.
"""
import atexit
import contextlib
import io
import math
import os
import pickle
import shutil
import tempfile

import numpy as np
import tskit

from lib import gen
from lib.model import NULL, RowModel, mutation_parents, sort_edges_key

FILES = ["nodes", "edges", "sites", "mutations", "individuals", "populations", "migrations"]
PARSERS = {n: "parse_" + n for n in FILES}

# one scratch directory per worker process, files are overwritten (creating and removing a directory per call cost
# 3 ms on the shared /tmp); removed at interpreter exit
_SCRATCH = []


def scratch():
    if not _SCRATCH or _SCRATCH[0][0] != os.getpid():
        base = "/dev/shm" if os.access("/dev/shm", os.W_OK) else None  # open() on the shared /tmp costs ~1 ms
        d = tempfile.mkdtemp(prefix="verif-c17-", dir=base)
        _SCRATCH[:] = [(os.getpid(), d)]
        atexit.register(shutil.rmtree, d, True)
    return _SCRATCH[0][1]


_CLI_PARSER = []


def cli_parser():
    if not _CLI_PARSER:
        from tskit import cli
        _CLI_PARSER.append(cli.get_tskit_parser())
    return _CLI_PARSER[0]


# ------------------------------------------------------------------------------------------ dump forms

DUMP_FORMS = ["kw", "pos", "single", "split", "files", "writeonly", "kw+prov", "cli", "pos-kw-mix", "pickled"]


class WriteOnly:
    """The documented minimum: 'file-like object (having a .write() method)'."""

    def __init__(self):
        self.parts = []

    def write(self, s):
        self.parts.append(s)
        return len(s)

    def getvalue(self):
        return "".join(self.parts)


def dump_form(ts, precision, form, rng):
    """Every documented way of asking for the same seven files.  Returns {name: text}."""
    pk = {} if precision is None else {"precision": precision}
    if form == "kw":
        bufs = {n: io.StringIO() for n in FILES}
        ts.dump_text(**bufs, **pk)
        return {n: b.getvalue() for n, b in bufs.items()}
    if form == "pos":
        # signature order: nodes, edges, sites, mutations, individuals, populations, migrations, provenances,
        # precision, encoding, base64_metadata
        bufs = [io.StringIO() for _ in FILES]
        prov = io.StringIO()
        if precision is None:
            ts.dump_text(*bufs)
        elif rng.random() < 0.5:
            ts.dump_text(*bufs, prov, precision)
        else:
            ts.dump_text(*bufs, prov, precision, "utf8", True)
        return {n: b.getvalue() for n, b in zip(FILES, bufs)}
    if form == "pos-kw-mix":
        bufs = {n: io.StringIO() for n in FILES}
        k = rng.randint(1, 6)
        ts.dump_text(*[bufs[n] for n in FILES[:k]], **{n: bufs[n] for n in FILES[k:]}, **pk,
                     **rng.choice([{}, {"encoding": "utf8"}, {"base64_metadata": True},
                                   {"encoding": "ascii", "base64_metadata": True}, {"encoding": "utf-8"}]))
        return {n: b.getvalue() for n, b in bufs.items()}
    if form == "single":
        # one table per call, the way the command line interface uses it
        out = {}
        order = list(FILES)
        rng.shuffle(order)
        for n in order:
            b = io.StringIO()
            ts.dump_text(**{n: b}, **pk)
            out[n] = b.getvalue()
        return out
    if form == "split":
        # two calls with complementary subsets (all other arguments None explicitly)
        order = list(FILES)
        rng.shuffle(order)
        cut = rng.randint(1, 6)
        out = {}
        for part in (order[:cut], order[cut:]):
            bufs = {n: (io.StringIO() if n in part else None) for n in FILES}
            ts.dump_text(**bufs, provenances=None, **pk)
            for n in part:
                out[n] = bufs[n].getvalue()
        return out
    if form == "files":
        out = {}
        d = scratch()
        hs = {n: open(os.path.join(d, n + ".out"), "w", encoding="utf8") for n in FILES}
        try:
            ts.dump_text(**hs, **pk)
        finally:
            for h in hs.values():
                h.close()
        for n in FILES:
            # newline="" : no translation while reading back what was written
            with open(os.path.join(d, n + ".out"), encoding="utf8", newline="") as f:
                out[n] = f.read()
        return out
    if form == "writeonly":
        bufs = {n: WriteOnly() for n in FILES}
        ts.dump_text(**bufs, **pk)
        return {n: b.getvalue() for n, b in bufs.items()}
    if form == "kw+prov":
        bufs = {n: io.StringIO() for n in FILES}
        ts.dump_text(provenances=io.StringIO(), base64_metadata=True, encoding=rng.choice(["utf8", "ascii", "latin-1"]),
                     **bufs, **pk)
        return {n: b.getvalue() for n, b in bufs.items()}
    if form == "pickled":
        ts2 = pickle.loads(pickle.dumps(ts))
        bufs = {n: io.StringIO() for n in FILES}
        ts2.dump_text(**bufs, **pk)
        return {n: b.getvalue() for n, b in bufs.items()}
    if form == "cli":
        # `python -m tskit nodes FILE -p P` ... : thin wrappers that call dump_text(<table>=sys.stdout, precision=P)
        out = {}
        parser = cli_parser()
        path = os.path.join(scratch(), "x.trees")
        ts.dump(path)
        for n in FILES:
            argv = [n, path]
            if precision is not None and n != "populations":  # the populations command has no precision option
                argv += [rng.choice(["-p", "--precision"]), str(precision)]
            args = parser.parse_args(argv)
            b = io.StringIO()
            with contextlib.redirect_stdout(b):
                args.runner(args)
            out[n] = b.getvalue()
        return out
    raise KeyError(form)


# ------------------------------------------------------------------------------------------ load forms

LOAD_FORMS = ["kw", "pos", "mixed-defaults", "files", "wrapped-bytes", "pos-L-kw", "kw-shuffled", "reread"]


def _as_L(L, rng):
    r = rng.random()
    if r < 0.25 and float(L).is_integer() and abs(L) < 2 ** 53:
        return int(L)
    if r < 0.5:
        return np.float64(L)
    return L


def load_form(files, L, form, rng):
    """tskit.load_text in every documented call form (strict tab mode, Base64).  files: {name: text} (a subset,
    nodes and edges always present); L None -> sequence_length not given, 0 -> given as zero."""
    opened = []
    with contextlib.ExitStack() as stack:
        def src(n):
            t = files[n]
            if form == "files":
                p = os.path.join(scratch(), n + ".txt")
                with open(p, "w", encoding="utf8", newline="") as f:
                    f.write(t)
                h = stack.enter_context(open(p, encoding="utf8"))
                return h
            if form == "wrapped-bytes":
                return io.TextIOWrapper(io.BytesIO(t.encode("utf8")), encoding="utf8")
            return io.StringIO(t)

        args = {n: src(n) for n in FILES if n in files}
        opened.extend(args.values())
        Lk = {} if L is None else {"sequence_length": _as_L(L, rng) if L != 0 else rng.choice([0, 0.0])}
        if form in ("kw", "files", "wrapped-bytes"):
            return tskit.load_text(strict=True, base64_metadata=True, **args, **Lk)
        if form == "kw-shuffled":
            kw = dict(args, **Lk)
            kw.update(rng.choice([{"encoding": "utf8"}, {"encoding": "ascii"}, {"strict": True},
                                  {"base64_metadata": True, "encoding": "utf-8", "strict": True}]))
            items = list(kw.items())
            rng.shuffle(items)
            return tskit.load_text(**dict(items))
        if form == "mixed-defaults":
            # nodes, edges positional; everything else by keyword; strict / encoding / base64_metadata defaults
            rest = {n: a for n, a in args.items() if n not in ("nodes", "edges")}
            return tskit.load_text(args["nodes"], args["edges"], **rest, **Lk)
        pos = [args.get(n) for n in FILES]
        if form == "pos":
            # signature order: nodes, edges, sites, mutations, individuals, populations, migrations,
            # sequence_length, strict, encoding, base64_metadata
            if L is None:
                while pos and pos[-1] is None:
                    pos.pop()
                return tskit.load_text(*pos)
            tail = rng.choice([(), (True,), (True, "utf8"), (True, "utf8", True)])
            return tskit.load_text(*pos, Lk["sequence_length"], *tail)
        if form == "pos-L-kw":
            k = rng.randint(2, 7)
            kw = {n: args[n] for n in FILES[k:] if n in args}
            return tskit.load_text(*pos[:k], **kw, **Lk)
        if form == "reread":
            # the same file objects, rewound, give the same result the second time (nothing is cached on them)
            tskit.load_text(strict=True, base64_metadata=True, **args, **Lk)
            for a in args.values():
                a.seek(0)
            return tskit.load_text(strict=True, base64_metadata=True, **args, **Lk)
    raise KeyError(form)


# ------------------------------------------------------------------------------------------ parser forms

PARSE_FORMS = ["std", "defaults", "pos", "srckw", "file", "std-enc"]


def parse_form(name, text, form, strict, table, rng):
    """One tskit.parse_<name> call.  strict=True / Base64 are the documented defaults, so 'defaults' passes neither."""
    fn = getattr(tskit, PARSERS[name])
    edges = name == "edges"
    with contextlib.ExitStack() as stack:
        if form == "file":
            p = os.path.join(scratch(), name + ".one")
            with open(p, "w", encoding="utf8", newline="") as f:
                f.write(text)
            source = stack.enter_context(open(p, encoding="utf8"))
        else:
            source = io.StringIO(text)
        tk = {} if table is None else {"table": table}
        if form == "defaults" and strict:
            return fn(source, **tk)
        if form == "pos":
            # parse_edges(source, strict, table); the others (source, strict, encoding, base64_metadata, table)
            if edges:
                return fn(source, strict, *(() if table is None else (table,)))
            if table is None:
                return fn(source, strict, *rng.choice([(), ("utf8",), ("utf8", True)]))
            return fn(source, strict, "utf8", True, table)
        if form == "srckw":
            kw = {"source": source, "strict": strict, **tk}
            if not edges and rng.random() < 0.5:
                kw["base64_metadata"] = True
            items = list(kw.items())
            rng.shuffle(items)
            return fn(**dict(items))
        kw = {"strict": strict, **tk}
        if not edges:
            kw["base64_metadata"] = True
            if form == "std-enc":
                kw["encoding"] = rng.choice(["utf8", "utf-8", "ascii", "latin-1"])
        return fn(source, **kw)


# ------------------------------------------------------------------------------------------ decorations

# doubles whose shortest repr is long / exotic: the columns dump_text writes with str() (mutation time, migration
# left/right/time, individual location) must come back bit for bit
REPR_DOUBLES = [0.1, 1 / 3, 2 / 3, 1e-7, 1.0000000000000002, 0.9999999999999999, 123456789.12345679, 1e22, 1e23,
                5e-324, 2.2250738585072014e-308, 1.7976931348623157e308, float(2 ** 53), float(2 ** 53 + 2),
                9007199254740993.0, 1e16, 1e-5, 299792458.0, 6.02214076e23, 4.35e-05, 0.30000000000000004]
LOCATION_SPECIALS = [float("inf"), float("-inf"), float("nan"), -0.0]


def rdouble(rng):
    r = rng.random()
    if r < 0.5:
        return rng.choice(REPR_DOUBLES) * rng.choice([1, 1, -1])
    if r < 0.8:
        return rng.random() * 10 ** rng.randint(-12, 12)
    return math.ldexp(rng.random(), rng.randint(-1000, 1000))


def deco_repr_doubles(rng, m):
    """Arbitrary doubles where the data model allows any: individual locations (incl. inf / nan / -0.0, which
    str() and float() round-trip), migration left / right (inside [0, L]) and migration times."""
    if m.individuals:
        inds = []
        for j, (fl, loc, par, md) in enumerate(m.individuals):
            if rng.random() < 0.7:
                loc = tuple((rng.choice(LOCATION_SPECIALS) if rng.random() < 0.2 else rdouble(rng))
                            for _ in range(rng.choice([1, 1, 2, 3, 5])))
            inds.append((fl, loc, par, md))
        m.individuals = inds
    if m.migrations:
        migs = []
        for l, r, u, s, d, t, md in m.migrations:
            a, b = sorted([rng.random() * m.L, rng.random() * m.L])
            if rng.random() < 0.3:
                a = 0.0
            if rng.random() < 0.3:
                b = m.L
            if not a < b:
                a, b = l, r
            migs.append((a, b, u, s, d, abs(rdouble(rng)), md))
        m.migrations = sorted(migs, key=lambda g: g[5])
    m.tags.add("deco:repr-doubles")
    return m


NONDYADIC = [1 / 3, 0.1, 1e-5 / 3, 1e10 / 7, 0.7, 3.3]


def deco_nondyadic(rng, m, what):
    """Scale times and/or coordinates by a factor that is not a power of two: strictly increasing on the small
    dyadic values the generators use, so every ordering requirement survives; the results need 16-17 significant
    digits (node/edge/site values through `precision`, mutation/migration values through str())."""
    if "time" in what:
        f = rng.choice(NONDYADIC)
        ts_ = sorted({t for _, t, _, _, _ in m.nodes} | {t for *_, t, _ in m.mutations if t is not None})
        img = [t * f for t in ts_]
        if all(a < b for a, b in zip(img, img[1:])):
            m.nodes = [(fl, t * f, p, i, md) for fl, t, p, i, md in m.nodes]
            m.mutations = [(s, u, d, p, None if t is None else t * f, md) for s, u, d, p, t, md in m.mutations]
            m.migrations = [g[:5] + (g[5] * f, g[6]) for g in m.migrations]
            m.tags.add("deco:nondyadic-times")
    if "coords" in what:
        f = rng.choice(NONDYADIC)
        xs = sorted({m.L} | {e[0] for e in m.edges} | {e[1] for e in m.edges} | {s[0] for s in m.sites}
                    | {g[0] for g in m.migrations} | {g[1] for g in m.migrations})
        img = [x * f for x in xs]
        if all(a < b for a, b in zip(img, img[1:])):
            m.L *= f
            m.edges = [(l * f, r * f, p, c, md) for l, r, p, c, md in m.edges]
            m.sites = [(x * f, a, md) for x, a, md in m.sites]
            m.migrations = [(g[0] * f, g[1] * f) + g[2:] for g in m.migrations]
            m.tags.add("deco:nondyadic-coords")
    return m


WIDE_LENGTHS = [1, 2, 3, 4, 5, 47, 48, 56, 57, 58, 59, 76, 77, 100, 255, 256, 300]


def wide_bytes(rng, n=None):
    """All 256 byte values, lengths around the 57-byte / 76-character Base64 line width, every padding class."""
    n = rng.choice(WIDE_LENGTHS) if n is None else n
    r = rng.random()
    if r < 0.15:
        return bytes([rng.choice([0xFB, 0xFF, 0xFE, 0x3E, 0x3F, 0xEF, 0xBE])]) * n  # '+' and '/' heavy
    if r < 0.25:
        return bytes((j * 7 + 3) % 256 for j in range(n))
    return rng.randbytes(n)


def deco_wide(rng, m):
    """Longer / full-range metadata on a share of the rows of every table, boundary flags on individuals."""
    def w(md):
        return wide_bytes(rng) if rng.random() < 0.4 else md
    m.nodes = [(f, t, p, i, w(md)) for f, t, p, i, md in m.nodes]
    m.sites = [(p, a, w(md)) for p, a, md in m.sites]
    m.mutations = [(s, u, d, p, t, w(md)) for s, u, d, p, t, md in m.mutations]
    m.individuals = [(rng.choice([f, 2 ** 31 - 1, 2 ** 31, 2 ** 32 - 1, 256, 65536]), l, p, w(md))
                     for f, l, p, md in m.individuals]
    m.populations = [(w(md),) for md, in m.populations]
    m.migrations = [g[:6] + (w(g[6]),) for g in m.migrations]
    if rng.random() < 0.3:
        # one entry beyond 64 KiB (Base64 text of > 87 000 characters on one line)
        cand = [n for n in ("nodes", "sites", "mutations", "individuals", "populations", "migrations") if getattr(m, n)]
        if cand:
            n = rng.choice(cand)
            rows = getattr(m, n)
            j = rng.choice([0, len(rows) - 1, rng.randrange(len(rows))])
            rows[j] = rows[j][:-1] + (wide_bytes(rng, 65536 + rng.randint(1, 3000)),)
            m.tags.add("entry>64KiB:" + n + ".metadata")
    m.tags.add("deco:wide-metadata")
    if m.individuals:
        m.tags.add("deco:boundary-individual-flags")
    return m


# ------------------------------------------------------------------------------------------ column patterns

RAGGED = {
    # table -> {column: (tuple index, empty value)}
    "nodes": {"metadata": (4, b"")},
    "sites": {"ancestral_state": (1, ""), "metadata": (2, b"")},
    "mutations": {"derived_state": (2, ""), "metadata": (5, b"")},
    "individuals": {"location": (1, ()), "parents": (2, ()), "metadata": (3, b"")},
    "populations": {"metadata": (0, b"")},
    "migrations": {"metadata": (6, b"")},
}
PATTERNS = ["all-empty", "only-last-empty", "only-first-empty", "only-last-nonempty", "all-identical"]


def _filler(rng, table, col, m, j):
    if col == "metadata":
        return gen.rbytes(rng) or b"\x00"
    if col in ("ancestral_state", "derived_state"):
        return rng.choice(["A", "C", "GT", " ", "é"])
    if col == "location":
        return tuple(rng.randint(-4, 4) / 2 for _ in range(rng.randint(1, 3)))
    if col == "parents":
        return tuple(rng.choice([NULL] + list(range(j))) for _ in range(rng.randint(1, 2)))
    raise KeyError(col)


def column_patterns(rng, m, turn, share=0.6):
    """Force whole-column shapes of the ragged columns (class c/f of the audit brief): a column that is empty in
    every row, empty only in the last / first row (a default or a carried-over value that is computed once shows
    exactly there), non-empty only in the last row, identical in all rows."""
    done = []
    cno = 0
    for table, cols in RAGGED.items():
        rows = getattr(m, table)
        for col, (ix, empty) in cols.items():
            cno += 1
            if not rows or rng.random() >= share:
                continue
            pat = PATTERNS[(turn + cno * 2) % len(PATTERNS)]  # `turn` walks every column through every pattern
            n = len(rows)
            new = []
            same = _filler(rng, table, col, m, 0)
            for j, r in enumerate(rows):
                if pat == "all-empty":
                    v = empty
                elif pat == "only-last-empty":
                    v = empty if j == n - 1 else _filler(rng, table, col, m, j)
                elif pat == "only-first-empty":
                    v = empty if j == 0 else _filler(rng, table, col, m, j)
                elif pat == "only-last-nonempty":
                    v = _filler(rng, table, col, m, j) if j == n - 1 else empty
                else:
                    v = same if col != "parents" else (NULL,)
                r = r[:ix] + (v,) + r[ix + 1:]
                new.append(r)
            setattr(m, table, new)
            done.append(f"column:{pat}")
            if pat in ("only-last-empty", "all-empty"):
                done.append(f"column:{pat}:{table}.{col}")
            rows = new
    for d in set(done):
        m.tags.add(d)
    return m


# ------------------------------------------------------------------------------------------ tiny family

TINY_KINDS = ["zero-nodes", "zero-nodes+rows", "one-node", "no-edges", "one-edge", "identical-rows", "patterns",
              "patterns", "patterns", "short-right-end"]


def build_tiny(rng, kind, turn=0):
    m = RowModel(rng.choice([1.0, 3.0, 10.0, 0.5]))
    m.tags.add("tiny:" + kind)
    if kind == "zero-nodes":
        return m
    if kind == "zero-nodes+rows":
        # individuals, populations and sites need no nodes
        m.populations = [(gen.rbytes(rng),) for _ in range(rng.randint(0, 3))]
        m.individuals = [(rng.choice([0, 1]), (), (), gen.rbytes(rng)) for _ in range(rng.randint(0, 3))]
        m.sites = [(0.0, rng.choice(["", "A"]), gen.rbytes(rng))] if rng.random() < 0.5 else []
        return m
    if kind in ("one-node", "no-edges"):
        n = 1 if kind == "one-node" else rng.randint(2, 5)
        npop = rng.randint(0, 2)
        m.populations = [(gen.rbytes(rng),) for _ in range(npop)]
        m.individuals = [(0, (1.5,), (), b"i")] if rng.random() < 0.5 else []
        m.nodes = [(rng.choice([0, 1]), float(rng.randint(0, 2)), rng.randrange(npop) if npop and rng.random() < 0.7 else NULL,
                    0 if m.individuals and rng.random() < 0.5 else NULL, gen.rbytes(rng)) for _ in range(n)]
        if rng.random() < 0.7:
            m.sites = [(0.0, "", b"")]
            u = rng.randrange(n)
            # several mutations stacked on one isolated node: parents chain, times (if known) do not increase
            k = rng.randint(1, 3)
            known = rng.random() < 0.5
            t0 = m.nodes[u][1]
            m.mutations = [(0, u, rng.choice(["", "T"]), j - 1 if j else NULL, (t0 + (k - j)) if known else None, gen.rbytes(rng))
                           for j in range(k)]
        if npop and rng.random() < 0.5:
            m.migrations = [(0.0, m.L, 0, 0, npop - 1, 1.0, gen.rbytes(rng))]
        return m
    if kind == "one-edge":
        m.nodes = [(1, 0.0, NULL, NULL, b""), (0, 1.0, NULL, NULL, b"")]
        m.edges = [(0.0, m.L, 1, 0, b"")]
        return m
    if kind == "identical-rows":
        n = rng.randint(2, 6)
        md = gen.rbytes(rng)
        m.populations = [(md,)] * rng.randint(1, 4)
        m.individuals = [(1, (0.5, 0.5), (NULL,), md)] * rng.randint(1, 4)
        m.nodes = [(1, 0.0, 0, 0, md)] * n
        m.sites = [(0.0, "A", md)]
        m.mutations = [(0, 0, "A", j - 1 if j else NULL, None, md) for j in range(rng.randint(1, 3))]
        m.migrations = [(0.0, m.L, 0, 0, 0, 1.0, md)] * rng.randint(0, 3)
        return m
    if kind == "short-right-end":
        # the last part of the sequence has no edges: max(right) < L while everything else fits below max(right)
        m = gen.gen_topology(rng, max_nodes=6, max_bp=3, discrete=True, L=8.0, gaps=False)
        gen.decorate_sites(rng, m, max_sites=4, discrete=True)
        gen.decorate_pops_inds(rng, m)
        m.L = 16.0
        m.tags.add("tiny:" + kind)
        return m
    # "patterns": an ordinary small input, then whole-column shapes
    m = gen.gen_topology(rng, max_nodes=7, max_bp=3)
    gen.decorate_pops_inds(rng, m, npop=rng.choice([1, 2, 3]), nind=rng.choice([2, 3, 5]))
    gen.decorate_sites(rng, m, max_sites=5, alleles=["A", "C", "", "GT", " "])
    gen.decorate_migrations(rng, m)
    gen.decorate_meta(rng, m, tables=("nodes", "sites", "mutations", "individuals", "populations", "migrations"))
    m.tags.add("tiny:" + kind)
    return column_patterns(rng, m, turn, share=1.0)


# ------------------------------------------------------------------------------------------ big family

MEGA_EVERY = 240   # kinds are multiples of 3: kind % 240 == 9 -> 3 cases in the quick tier, ~110 in the thorough tier
MEGA_TEXT = 3 << 19  # 1.5 MiB of text per table: beyond any plausible read buffer / chunk size of a text parser


def build_mega(rng, kind):
    """Every one of the seven text files longer than 1 MiB (seeded C17-8: a parser that stops reading after a size
    hint).  Nodes and edges get there by row count (no metadata column in the edges file), the other tables by
    metadata on a few hundred rows."""
    n = rng.randint(60000, 64000)
    m = RowModel(float(rng.choice([16, 100, 1000])))
    npop, nind = rng.choice([3, 129]), rng.choice([5, 257])
    n_int = rng.randint(2, 6)
    times = [0.0] * (n - n_int) + [float(j + 1) for j in range(n_int)]
    m.nodes = [(1 if u < n - n_int else 0, times[u], u % npop if u % 3 else NULL, u % nind if u % 5 else NULL, b"")
               for u in range(n)]
    edges = []
    for u in range(n - 1):
        p = n - n_int + (u % n_int) if u < n - n_int else u + 1
        edges.append((0.0, m.L, p, u, b""))
    m.edges = sorted(edges, key=sort_edges_key(m))

    def blob(rows):
        return wide_bytes(rng, MEGA_TEXT * 3 // 4 // max(rows, 1) + rng.randint(1, 57))

    m.populations = [(blob(npop),) for _ in range(npop)]
    m.individuals = [(0, (), (), blob(nind)) for _ in range(nind)]
    pos = sorted(rng.sample(range(int(m.L)), min(int(m.L), rng.randint(8, 16))))
    m.sites = [(float(x), rng.choice(["A", "", "GT"]), blob(len(pos))) for x in pos]
    nmut = rng.randint(200, 300)
    leaves = rng.sample(range(n - n_int), nmut)
    m.mutations = [(k % len(pos), u, rng.choice(["C", "", "TTT"]), NULL, None, blob(nmut)) for k, u in enumerate(leaves)]
    m.mutations.sort(key=lambda r: r[0])
    nmig = rng.randint(100, 200)
    m.migrations = sorted([(0.0, m.L, rng.randrange(n), rng.randrange(npop), npop - 1, float(rng.randint(0, 9)), blob(nmig))
                           for _ in range(nmig)], key=lambda g: g[5])
    m.tags.add("big")
    m.tags.add("big:every-file>1MiB")
    return m


def build_big(rng, kind):
    """>= 256 rows in every table that is referenced by id (3-digit ids, > 127 / > 255 populations and individuals),
    one individual with hundreds of parents / location values, one entry of every ragged column beyond 64 KiB."""
    if kind % MEGA_EVERY == 9:
        return build_mega(rng, kind)
    n = rng.randint(275, 330)
    m = RowModel(float(rng.choice([16, 100, 1000])))
    npop = rng.choice([129, 257, 300])
    nind = rng.randint(257, 300)
    times = [0.0] * n
    # a few fat internal nodes over many leaves, then a spine above them
    n_int = rng.randint(3, 12)
    for u in range(n - n_int, n):
        times[u] = float(u - (n - n_int) + 1)
    flags = [1 if u < n - n_int else 0 for u in range(n)]
    m.nodes = [(flags[u], times[u], rng.randrange(npop) if rng.random() < 0.8 else NULL,
                rng.randrange(nind) if rng.random() < 0.8 else NULL, gen.rbytes(rng)) for u in range(n)]
    # make sure the largest ids are referenced
    m.nodes[0] = (1, 0.0, npop - 1, nind - 1, b"")
    bps = sorted(rng.sample(range(1, int(m.L)), rng.choice([0, 0, 1, 2])))
    bounds = [0.0] + [float(b) for b in bps] + [m.L]
    edges = []
    for a, b in zip(bounds, bounds[1:]):
        for u in range(n - 1):
            if u < n - n_int:
                p = rng.randrange(n - n_int, n)
            else:
                p = rng.randrange(u + 1, n)
            edges.append((a, b, p, u, b""))
    m.edges = sorted(edges, key=sort_edges_key(m))
    m.populations = [(gen.rbytes(rng),) for _ in range(npop)]
    inds = []
    for i in range(nind):
        loc = tuple(rng.randint(-4, 4) / 2 for _ in range(rng.choice([0, 0, 1, 2])))
        par = tuple(rng.choice([NULL] + list(range(i))) for _ in range(rng.choice([0, 0, 1, 2])))
        inds.append((rng.choice([0, 1, 2 ** 32 - 1]), loc, par, gen.rbytes(rng)))
    j = nind - 1
    inds[j] = (0, tuple(k / 4 for k in range(300)), tuple(rng.choice([NULL] + list(range(j))) for _ in range(300)), b"many")
    m.individuals = inds
    # sites / mutations: one site with > 256 mutations (leaf mutations have no ordering constraints between them)
    pos = sorted(rng.sample(range(int(m.L)), min(int(m.L), rng.randint(2, 6))))
    m.sites = [(float(x), rng.choice(["A", "", "GT"]), gen.rbytes(rng)) for x in pos]
    muts = []
    for sj in range(len(pos)):
        k = 260 if sj == len(pos) - 1 else rng.randint(0, 3)
        leaves = rng.sample(range(n - n_int), k)
        muts += [(sj, u, rng.choice(["C", "", "TTT"]), NULL, None, gen.rbytes(rng)) for u in leaves]
    m.mutations = muts
    par = mutation_parents(m)
    m.mutations = [(s, u, d, par[k], t, md) for k, (s, u, d, _, t, md) in enumerate(m.mutations)]
    m.migrations = sorted([(0.0, m.L, rng.randrange(n), rng.randrange(npop), npop - 1, float(rng.randint(0, 9)), gen.rbytes(rng))
                           for _ in range(rng.choice([0, 3, 260]))], key=lambda g: g[5])
    big = 65536 + rng.randint(1, 5000)
    if kind % 2 == 0:
        # one entry beyond 64 KiB in a ragged column of each table
        which = rng.choice(["nodes", "sites", "mutations", "individuals", "populations", "alleles"])
        blob = wide_bytes(rng, big)
        if which == "nodes":
            j = rng.randrange(n)
            m.nodes[j] = m.nodes[j][:4] + (blob,)
        elif which == "sites":
            j = rng.randrange(len(m.sites))
            m.sites[j] = m.sites[j][:2] + (blob,)
        elif which == "mutations":
            j = rng.randrange(len(m.mutations))
            m.mutations[j] = m.mutations[j][:5] + (blob,)
        elif which == "individuals":
            j = rng.randrange(nind)
            m.individuals[j] = m.individuals[j][:3] + (blob,)
        elif which == "populations":
            m.populations[rng.randrange(npop)] = (blob,)
        else:
            j = rng.randrange(len(m.sites))
            m.sites[j] = (m.sites[j][0], "ACGT" * (big // 4), m.sites[j][2])
            k = rng.randrange(len(m.mutations))
            m.mutations[k] = m.mutations[k][:2] + ("é" * (big // 2),) + m.mutations[k][3:]
        m.tags.add("big:entry>64KiB:" + which)
    else:
        # metadata around the Base64 line width on many rows
        m.nodes = [(f, t, p, i, wide_bytes(rng)) if rng.random() < 0.3 else (f, t, p, i, md) for f, t, p, i, md in m.nodes]
        m.tags.add("big:wide-metadata")
    m.tags.add("big")
    return m
