/* TSan launcher: an instrumented main() that runs the stock libpython, so that a
 * -fsanitize=thread build of _tskit can be dlopen()ed (LD_PRELOADing the TSan
 * runtime segfaults in this sandbox). */
#include <Python.h>
int
main(int argc, char **argv)
{
    return Py_BytesMain(argc, argv);
}
