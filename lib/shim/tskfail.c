/* LD_PRELOAD shim: interposes tsk_malloc/tsk_calloc/tsk_realloc (ordinary exported
 * symbols of the out-of-tree _tskit build, reached through the PLT) so that the
 * TSKFAIL_AT-th allocation made while counting is armed returns NULL.
 * Controlled from Python through ctypes: tskfail_arm(k), tskfail_disarm() -> count. */
#define _GNU_SOURCE
#include <stdlib.h>
#include <stddef.h>

static long counter = 0;
static long fail_at = -1; /* -1: never fail */
static int armed = 0;

void
tskfail_arm(long k)
{
    counter = 0;
    fail_at = k;
    armed = 1;
}

long
tskfail_disarm(void)
{
    armed = 0;
    return counter;
}

static int
should_fail(void)
{
    if (!armed) {
        return 0;
    }
    counter++;
    return fail_at >= 0 && counter == fail_at;
}

void *
tsk_malloc(size_t size)
{
    if (should_fail()) {
        return NULL;
    }
    if (size == 0) {
        size = 1;
    }
    return malloc(size);
}

void *
tsk_realloc(void *ptr, size_t size)
{
    if (should_fail()) {
        return NULL;
    }
    if (size == 0) {
        abort(); /* mirrors tsk_bug_assert(size > 0) in the real tsk_realloc */
    }
    return realloc(ptr, size);
}

void *
tsk_calloc(size_t n, size_t size)
{
    if (should_fail()) {
        return NULL;
    }
    if (size == 0) {
        size = 1;
    }
    if (n == 0) {
        n = 1;
    }
    return calloc(n, size);
}
