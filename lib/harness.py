"""Worker-side harness: import guard, per-case journal, counters, violation records.

A property module (lib/props/cXX.py) provides
    ID, LEVEL, RULE, REQUIRED (monitor counters that must be > 0), VARIANT
    cases(tier, seed)  -> iterator of small JSON-able case descriptors
    run_case(case, ctx)
A case must be a deterministic function of its descriptor, so the descriptor is the replay.
"""
import faulthandler
import hashlib
import json
import os
import random
import sys
import time
import traceback


class Ctx:
    def __init__(self, prop_id, tier, seed):
        self.prop_id = prop_id
        self.tier = tier
        self.seed = seed
        self.counters = {}
        self.features = {}
        self.sigs = set()
        self.violations = []
        self.samples = []
        self.cases = 0
        self.case = None
        self.max_samples = 3
        self.journal = None

    # ---- observation
    def count(self, name, n=1):
        self.counters[name] = self.counters.get(name, 0) + n

    def feature(self, tag, n=1):
        self.features[tag] = self.features.get(tag, 0) + n

    def sig(self, obj, nontrivial=True):
        """Record the signature of a case; only non-trivial ones count as distinct."""
        if not nontrivial:
            self.count("trivial_cases")
            return
        h = hashlib.sha1(repr(obj).encode()).hexdigest()[:16]
        self.sigs.add(h)

    def sample(self, obj):
        if len(self.samples) < self.max_samples:
            self.samples.append(obj)

    def violation(self, key, msg, detail=None):
        v = {
            "property": self.prop_id,
            "key": key,
            "msg": str(msg)[:2000],
            "case": self.case,
            "detail": detail,
        }
        self.violations.append(v)
        return v

    def step(self, desc):
        """Record the sub-step about to run in the journal (so a crash names the exact call)."""
        if self.journal is None or self.case is None:
            return
        c = dict(self.case)
        c["step"] = str(desc)[:1500]
        with open(self.journal, "w") as f:
            json.dump(c, f, default=_jsonable)

    def check(self, cond, key, msg, detail=None):
        """Convenience: record a violation unless cond holds. Returns cond."""
        if not cond:
            self.violation(key, msg, detail)
        return bool(cond)


def case_rng(case, salt=""):
    """Deterministic RNG for a case descriptor."""
    s = json.dumps({k: v for k, v in case.items() if k != "step"}, sort_keys=True) + salt
    return random.Random(int(hashlib.sha1(s.encode()).hexdigest()[:16], 16))


def import_guard():
    """The wheel in site-packages is tskit 1.0.3; every check must run /repo's code."""
    import _tskit
    import tskit

    repo = os.environ.get("VERIF_REPO", "/repo")
    bd = os.environ.get("VERIF_BUILDDIR", "")
    ok = os.path.realpath(tskit.__file__).startswith(os.path.realpath(repo) + "/python/")
    ok = ok and bd and os.path.realpath(_tskit.__file__).startswith(os.path.realpath(bd) + "/")
    if not ok:
        sys.stderr.write(
            f"IMPORT-GUARD: tskit={tskit.__file__} _tskit={_tskit.__file__} "
            f"expected repo={repo} builddir={bd}\n"
        )
        sys.exit(3)


def load_prop(prop_id):
    import importlib

    return importlib.import_module(f"lib.props.{prop_id.lower()}")


def worker_main(argv):
    a = json.loads(argv[0])
    prop_id, tier, seed = a["prop"], a["tier"], int(a["seed"])
    shard, nshards, outdir = int(a["shard"]), int(a["nshards"]), a["outdir"]
    skip_until, skip = int(a.get("skip_until", 0)), set(a.get("skip", []))
    budget, case_timeout = float(a["budget"]), int(a["case_timeout"])
    attempt = int(a.get("attempt", 0))
    import_guard()
    prop = load_prop(prop_id)
    ctx = Ctx(prop_id, tier, seed)
    journal = os.path.join(outdir, f"journal-{shard}.json")
    ctx.journal = journal
    result = os.path.join(outdir, f"result-{shard}-{attempt}.json")
    t0 = time.time()
    last_idx = -1
    exhausted = True
    replay = a.get("replay_case")
    ctx.shard, ctx.nshards, ctx.replay, ctx.attempt = shard, nshards, replay is not None, attempt
    if hasattr(prop, "setup"):
        prop.setup(ctx)
    source = enumerate(prop.cases(tier, seed)) if replay is None else [(replay.get("idx", 0), replay)]
    for idx, case in source:
        if replay is None and (idx % nshards != shard or idx < skip_until or idx in skip):
            continue
        if time.time() - t0 > budget:
            exhausted = False
            break
        case = dict(case)
        case["idx"] = idx
        case["seed"] = seed
        case["tier"] = tier
        with open(journal, "w") as f:
            json.dump(case, f)
        ctx.case = case
        faulthandler.dump_traceback_later(case_timeout, exit=True)
        try:
            prop.run_case(case, ctx)
        except Exception as e:  # harness/oracle error: inconclusive, never a verdict
            ctx.count("harness_errors")
            ctx.violations.append(
                {
                    "property": prop_id,
                    "key": "HARNESS-ERROR",
                    "msg": f"{type(e).__name__}: {e}",
                    "case": case,
                    "detail": traceback.format_exc()[-3000:],
                }
            )
        faulthandler.cancel_dump_traceback_later()
        ctx.cases += 1
        last_idx = idx
        if ctx.cases % 50 == 0:
            _write_result(result, ctx, last_idx, False, False, t0)
    if hasattr(prop, "teardown"):
        # companion processes started by setup() (e.g. the valgrind run of C09) are collected here
        try:
            prop.teardown(ctx)
        except Exception as e:
            ctx.violations.append({"property": prop_id, "key": "HARNESS-ERROR", "msg": f"teardown: {type(e).__name__}: {e}",
                                   "case": None, "detail": traceback.format_exc()[-3000:]})
    _write_result(result, ctx, last_idx, True, exhausted, t0)
    try:
        os.unlink(journal)
    except OSError:
        pass


def _write_result(path, ctx, last_idx, done, exhausted, t0):
    tmp = path + ".tmp"
    with open(tmp, "w") as f:
        json.dump(
            {
                "cases": ctx.cases,
                "counters": ctx.counters,
                "features": ctx.features,
                "sigs": sorted(ctx.sigs),
                "violations": ctx.violations,
                "samples": ctx.samples,
                "last_idx": last_idx,
                "done": done,
                "exhausted": exhausted,
                "wall": time.time() - t0,
            },
            f,
            default=_jsonable,
        )
    os.replace(tmp, path)


def _jsonable(o):
    try:
        import numpy as np

        if isinstance(o, np.integer):
            return int(o)
        if isinstance(o, np.floating):
            return float(o)
        if isinstance(o, np.ndarray):
            return o.tolist()
    except Exception:
        pass
    if isinstance(o, bytes):
        return o.hex()
    if isinstance(o, (set, frozenset, tuple)):
        return list(o)
    return repr(o)


if __name__ == "__main__":
    worker_main(sys.argv[1:])
