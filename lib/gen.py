"""Workload generators (DESIGN 3.3): forest-walk topology + decoration.  Pure model code."""
from lib.model import NODE_IS_SAMPLE, NULL, RowModel, forest, mutation_parents, sort_edges_key

ALLELES = ["A", "C", "G", "T", "", "AC", "GGT", "é", "0", "1"]
SIMPLE_ALLELES = ["A", "C", "G", "T"]


def rbytes(rng, maxlen=6):
    k = rng.choice([0, 0, 1, 2, 3, maxlen])
    return bytes(rng.choice([0, 1, 65, 97, 255, 10, 9, 200]) for _ in range(k))


def gen_topology(rng, n=None, max_nodes=10, max_bp=5, L=None, discrete=False, time_mode=None,
                 sample_mode=None, unsquashed=None, gaps=None):
    """Forest walk: random parent map (parent strictly older), mutated at each breakpoint."""
    m = RowModel()
    if n is None:
        n = rng.randint(1, max_nodes)
    L = L if L is not None else rng.choice([1.0, 2.0, 4.0, 8.0, 10.0, 16.0, 100.0])
    if discrete and L < 2:
        L = 8.0
    m.L = float(L)
    time_mode = time_mode or rng.choice(["half", "half", "int", "neg", "big", "ties"])
    if time_mode == "int":
        times = [float(rng.randint(0, 6)) for _ in range(n)]
    elif time_mode == "neg":
        times = [rng.randint(-8, 8) / 2 for _ in range(n)]
    elif time_mode == "big":
        times = [float(rng.choice([0, 0, 1, 1000, 4096, 2 ** 20])) + rng.randint(0, 8) / 8 for _ in range(n)]
    elif time_mode == "ties":
        times = [float(rng.randint(0, 2)) for _ in range(n)]
    else:
        times = [rng.randint(0, 12) / 2 for _ in range(n)]
    if rng.random() < 0.6:
        # favour leaves at time zero
        for u in range(n):
            if rng.random() < 0.4:
                times[u] = min(times)
    m.tags.add("time:" + time_mode)
    sample_mode = sample_mode or rng.choice(["young", "young", "any", "all", "few", "none"])
    tmin = min(times)
    flags = []
    for u in range(n):
        if sample_mode == "young":
            s = times[u] == tmin or rng.random() < 0.1
        elif sample_mode == "any":
            s = rng.random() < 0.5
        elif sample_mode == "all":
            s = True
        elif sample_mode == "few":
            s = rng.random() < 0.2
        else:
            s = False
        flags.append(NODE_IS_SAMPLE if s else 0)
    if rng.random() < 0.15:
        flags = [f | (rng.choice([2, 1 << 16, 1 << 31])) for f in flags]
    m.tags.add("samples:" + sample_mode)
    m.nodes = [(flags[u], times[u], NULL, NULL, b"") for u in range(n)]
    # breakpoints
    nbp = rng.randint(0, max_bp)
    if discrete or rng.random() < 0.4:
        cand = [float(x) for x in range(1, int(L))]
    else:
        cand = [k * L / 16 for k in range(1, 16)]
    rng.shuffle(cand)
    bps = sorted(cand[:nbp])
    bounds = [0.0] + bps + [m.L]
    older = {u: [v for v in range(n) if times[v] > times[u]] for u in range(n)}

    def rand_parent(u):
        if not older[u] or rng.random() < 0.2:
            return NULL
        return rng.choice(older[u])

    parent = {u: rand_parent(u) for u in range(n)}
    unsquashed = (rng.random() < 0.2) if unsquashed is None else unsquashed
    gaps = (rng.random() < 0.3) if gaps is None else gaps
    start = {u: 0.0 for u in range(n)}
    edges = []
    for i in range(1, len(bounds)):
        x = bounds[i]
        if i == len(bounds) - 1:
            new = {u: NULL for u in range(n)}
            force = True
        else:
            force = False
            new = dict(parent)
            r = rng.random()
            if gaps and r < 0.25:
                new = {u: NULL for u in range(n)}
                m.tags.add("gap")
            elif gaps and r < 0.35 and all(p == NULL for p in parent.values()):
                new = {u: rand_parent(u) for u in range(n)}
            else:
                for _ in range(rng.randint(1, 3)):
                    u = rng.randrange(n)
                    new[u] = rand_parent(u)
        for u in range(n):
            brk = new[u] != parent[u] or force or (unsquashed and parent[u] != NULL and rng.random() < 0.3)
            if brk:
                if parent[u] != NULL:
                    edges.append((start[u], x, parent[u], u, b""))
                start[u] = x
        parent = new
    if unsquashed:
        m.tags.add("unsquashed")
    m.edges = sorted(edges, key=sort_edges_key(m))
    return m


def decorate_sites(rng, m, max_sites=6, alleles=None, known_times=None, discrete=False, max_muts=4):
    """Sites + correctly ordered and parented mutations."""
    alleles = alleles or (ALLELES if rng.random() < 0.3 else SIMPLE_ALLELES)
    ns = rng.randint(0, max_sites)
    if discrete:
        cand = [float(x) for x in range(int(m.L))]
    else:
        cand = [k * m.L / 32 for k in range(32)]
    rng.shuffle(cand)
    positions = sorted(cand[:ns])
    if rng.random() < 0.3 and 0.0 not in positions and positions:
        positions[0] = 0.0
        positions = sorted(set(positions))
    mixed = False
    if known_times is None:
        r = rng.random()
        known_times = r < 0.3
        mixed = 0.3 <= r < 0.45  # known at some sites, unknown at others (only mixing WITHIN a site is invalid)
    if known_times or mixed:
        m.tags.add("mutation-times")
    if mixed:
        m.tags.add("mutation-times-mixed-across-sites")
    model_known = known_times
    n = m.num_nodes
    sites, muts = [], []
    for j, pos in enumerate(positions):
        anc = rng.choice(alleles)
        sites.append((pos, anc, b""))
        fr = forest(m, pos)
        k = rng.choice([0, 1, 1, 1, 2, 3, max_muts])
        known_times = (rng.random() < 0.5) if mixed else model_known
        lst = []
        for _ in range(k):
            u = rng.randrange(n)
            p = fr.par(u)
            if known_times:
                lo = m.time(u)
                hi = m.time(p) if p != NULL else lo + 2.0
                t = lo + rng.randint(0, 7) * (hi - lo) / 8
            else:
                t = None
            lst.append([u, rng.choice(alleles), t])
        # valid order: known times non-increasing; otherwise ancestors (older nodes) first
        if known_times:
            lst.sort(key=lambda z: (-z[2], -m.time(z[0])))
        else:
            lst.sort(key=lambda z: -m.time(z[0]))
        for u, d, t in lst:
            muts.append((j, u, d, NULL, t, b""))
        if k > 1:
            m.tags.add("multi-mutation-site")
    m.sites = sites
    m.mutations = muts
    par = mutation_parents(m)
    m.mutations = [(s, u, d, par[k], t, md) for k, (s, u, d, _, t, md) in enumerate(m.mutations)]
    return m


def decorate_meta(rng, m, tables=("nodes", "edges", "sites", "mutations")):
    """Schema-less binary metadata on rows."""
    if "nodes" in tables:
        m.nodes = [(f, t, p, i, rbytes(rng)) for f, t, p, i, _ in m.nodes]
    if "edges" in tables:
        m.edges = [(l, r, p, c, rbytes(rng)) for l, r, p, c, _ in m.edges]
    if "sites" in tables:
        m.sites = [(p, a, rbytes(rng)) for p, a, _ in m.sites]
    if "mutations" in tables:
        m.mutations = [(s, u, d, p, t, rbytes(rng)) for s, u, d, p, t, _ in m.mutations]
    if "individuals" in tables:
        m.individuals = [(f, l, p, rbytes(rng)) for f, l, p, _ in m.individuals]
    if "populations" in tables:
        m.populations = [(rbytes(rng),) for _ in m.populations]
    if "migrations" in tables:
        m.migrations = [g[:6] + (rbytes(rng),) for g in m.migrations]
    m.tags.add("metadata")
    return m


def decorate_pops_inds(rng, m, npop=None, nind=None, ordered_parents=True):
    npop = rng.randint(0, 3) if npop is None else npop
    nind = rng.randint(0, 4) if nind is None else nind
    m.populations = [(b"",) for _ in range(npop)]
    inds = []
    for i in range(nind):
        loc = tuple(rng.randint(-4, 4) / 2 for _ in range(rng.choice([0, 0, 1, 2, 3])))
        if ordered_parents:
            pars = tuple(rng.choice([NULL] + list(range(i))) for _ in range(rng.choice([0, 0, 1, 2])))
        else:
            pars = tuple(rng.choice([NULL] + list(range(nind))) for _ in range(rng.choice([0, 0, 1, 2])))
        inds.append((rng.choice([0, 0, 1, 7]), loc, pars, b""))
    m.individuals = inds
    nodes = []
    for f, t, _, _, md in m.nodes:
        pop = rng.randrange(npop) if npop and rng.random() < 0.7 else NULL
        ind = rng.randrange(nind) if nind and rng.random() < 0.6 else NULL
        nodes.append((f, t, pop, ind, md))
    m.nodes = nodes
    if nind:
        m.tags.add("individuals")
    if npop:
        m.tags.add("populations")
    return m


def decorate_migrations(rng, m, maxn=4):
    if len(m.populations) < 1 or m.num_nodes == 0:
        return m
    k = rng.randint(0, maxn)
    migs = []
    for _ in range(k):
        a = rng.randint(0, 15)
        b = rng.randint(a + 1, 16)
        migs.append((a * m.L / 16, b * m.L / 16, rng.randrange(m.num_nodes),
                     rng.randrange(len(m.populations)), rng.randrange(len(m.populations)),
                     rng.randint(0, 16) / 2, b""))
    migs.sort(key=lambda g: g[5])
    m.migrations = migs
    if migs:
        m.tags.add("migrations")
    return m


def gen_full(rng, max_nodes=10, max_bp=5, max_sites=6, discrete=False, meta=None, pops=None,
             migrations=False, **kw):
    m = gen_topology(rng, max_nodes=max_nodes, max_bp=max_bp, discrete=discrete, **kw)
    if pops is None:
        pops = rng.random() < 0.5
    if pops:
        decorate_pops_inds(rng, m)
    decorate_sites(rng, m, max_sites=max_sites, discrete=discrete)
    if migrations and rng.random() < 0.5:
        decorate_migrations(rng, m)
    if meta is None:
        meta = rng.random() < 0.5
    if meta:
        decorate_meta(rng, m, tables=("nodes", "edges", "sites", "mutations", "individuals",
                                      "populations", "migrations"))
    return m


def topo_tags(m):
    """Feature tags measured on an instance (for evidence / non-triviality)."""
    tags = set(m.tags)
    bps = m.breakpoints()
    if len(bps) > 2:
        tags.add("multi-tree")
    for i in range(len(bps) - 1):
        fr = forest(m, (bps[i] + bps[i + 1]) / 2)
        if not fr.parent:
            tags.add("empty-tree")
        for p, ch in fr.children.items():
            if len(ch) == 1:
                tags.add("unary")
            if len(ch) > 2:
                tags.add("polytomy")
            if m.is_sample(p):
                tags.add("internal-sample")
        rs = fr.roots()
        if len(rs) > 1:
            tags.add("multi-root")
        for u in range(m.num_nodes):
            if m.is_sample(u) and fr.is_isolated(u):
                tags.add("isolated-sample")
            if (not m.is_sample(u)) and u in fr.parent and not fr.kids(u):
                tags.add("dead-leaf")
    if not m.edges:
        tags.add("zero-edges")
    if not m.samples():
        tags.add("zero-samples")
    return tags
