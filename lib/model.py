"""Independent reference model of the tskit data model (DESIGN 3.2).

A RowModel is plain Python lists of row tuples.  Everything derived from it is
computed naively per position from {child: parent} maps; no edge sweep, no sample
lists, no shared code with the C library.
"""
import copy
import math

NULL = -1
UNKNOWN_TIME_BITS = 0x7FF8000000000001
NODE_IS_SAMPLE = 1


class RowModel:
    """Rows:
    nodes        (flags, time, population, individual, metadata)
    edges        (left, right, parent, child, metadata)
    sites        (position, ancestral_state, metadata)
    mutations    (site, node, derived_state, parent, time, metadata)   time None = unknown
    individuals  (flags, location(tuple), parents(tuple), metadata)
    populations  (metadata,)
    migrations   (left, right, node, source, dest, time, metadata)
    provenances  (timestamp, record)
    """

    TABLES = ("nodes", "edges", "sites", "mutations", "individuals", "populations",
              "migrations", "provenances")

    def __init__(self, L=1.0):
        self.L = float(L)
        self.nodes = []
        self.edges = []
        self.sites = []
        self.mutations = []
        self.individuals = []
        self.populations = []
        self.migrations = []
        self.provenances = []
        self.metadata = b""
        self.metadata_schema = ""
        self.time_units = "unknown"
        self.schemas = {}  # table name -> schema string
        self.refseq = None  # dict(data, url, metadata, metadata_schema) or None
        self.tags = set()

    def copy(self):
        return copy.deepcopy(self)

    def signature(self):
        return (self.L, tuple(self.nodes), tuple(self.edges), tuple(self.sites),
                tuple(self.mutations), tuple(self.individuals), tuple(self.populations),
                tuple(self.migrations))

    def to_json(self):
        def enc(x):
            if isinstance(x, bytes):
                return {"b": x.hex()}
            if isinstance(x, (tuple, list)):
                return [enc(y) for y in x]
            return x
        d = {"L": self.L}
        for t in self.TABLES:
            d[t] = enc(getattr(self, t))
        return d

    # ------------------------------------------------------------------ basic queries
    @property
    def num_nodes(self):
        return len(self.nodes)

    def time(self, u):
        return self.nodes[u][1]

    def is_sample(self, u):
        return bool(self.nodes[u][0] & NODE_IS_SAMPLE)

    def samples(self):
        return [u for u in range(len(self.nodes)) if self.is_sample(u)]

    def breakpoints(self):
        bp = {0.0, self.L}
        for e in self.edges:
            bp.add(e[0])
            bp.add(e[1])
        return sorted(bp)

    def forest_at(self, x):
        """{child: parent} for the edges with left <= x < right."""
        f = {}
        for e in self.edges:
            if e[0] <= x < e[1]:
                f[e[3]] = e[2]
        return f

    def edge_ids_at(self, x):
        return {e[3]: j for j, e in enumerate(self.edges) if e[0] <= x < e[1]}

    def sites_in(self, left, right):
        return [j for j, s in enumerate(self.sites) if left <= s[0] < right]

    def site_mutations(self, j):
        return [k for k, m in enumerate(self.mutations) if m[0] == j]


class Forest:
    """Derived views of one {child: parent} map over nodes 0..n-1."""

    def __init__(self, model, parent):
        self.m = model
        self.n = model.num_nodes
        self.parent = dict(parent)
        self.children = {}
        for c, p in self.parent.items():
            self.children.setdefault(p, set()).add(c)

    def par(self, u):
        return self.parent.get(u, NULL)

    def kids(self, u):
        return self.children.get(u, set())

    def in_tree(self, u):
        return u in self.parent or u in self.children

    def path_up(self, u):
        out = [u]
        while u in self.parent:
            u = self.parent[u]
            out.append(u)
        return out

    def root_of(self, u):
        return self.path_up(u)[-1]

    def descendants(self, u):
        """u and everything below it."""
        out = [u]
        stack = [u]
        while stack:
            v = stack.pop()
            for c in self.kids(v):
                out.append(c)
                stack.append(c)
        return out

    def samples_below(self, u, sample_set=None):
        if sample_set is None:
            return [v for v in self.descendants(u) if self.m.is_sample(v)]
        return [v for v in self.descendants(u) if v in sample_set]

    def num_samples(self, u):
        return len(self.samples_below(u))

    def roots(self, threshold=1):
        """Nodes without parent that subtend >= threshold samples (tskit root rule)."""
        rs = set()
        for s in self.m.samples():
            r = self.root_of(s)
            if self.num_samples(r) >= threshold:
                rs.add(r)
        return rs

    def mrca(self, u, v):
        pu = self.path_up(u)
        spv = set(self.path_up(v))
        for w in pu:
            if w in spv:
                return w
        return NULL

    def depth(self, u):
        return len(self.path_up(u)) - 1

    def branch_length(self, u):
        p = self.par(u)
        if p == NULL:
            return 0.0
        return self.m.time(p) - self.m.time(u)

    def is_isolated(self, u):
        return u not in self.parent and u not in self.children

    def is_descendant(self, u, v):
        return v in self.path_up(u)


def forest(model, x):
    return Forest(model, model.forest_at(x))


# ---------------------------------------------------------------------- genotypes


def allele_at(model, fr, site_id, node):
    """Derived state of the nearest mutation at the site above `node` (last listed on a
    node is the most recent), else the ancestral state."""
    by_node = {}
    for k in model.site_mutations(site_id):
        by_node[model.mutations[k][1]] = k  # last listed wins
    u = node
    while True:
        if u in by_node:
            return model.mutations[by_node[u]][2]
        if u not in fr.parent:
            return model.sites[site_id][1]
        u = fr.parent[u]


def is_missing(model, fr, site_id, node):
    """isolated sample with no mutation directly above it."""
    if not fr.is_isolated(node):
        return False
    if not model.is_sample(node):
        return False
    for k in model.site_mutations(site_id):
        if model.mutations[k][1] == node:
            return False
    return True


def mutation_parents(model):
    """Reference mutation parents: nearest mutation above (earlier rows on the same node are
    older; otherwise the last listed mutation on the nearest ancestor carrying one)."""
    out = [NULL] * len(model.mutations)
    for j, s in enumerate(model.sites):
        fr = forest(model, s[0])
        last_on_node = {}
        for k in model.site_mutations(j):
            u = model.mutations[k][1]
            if u in last_on_node:
                out[k] = last_on_node[u]
            else:
                v = u
                while v in fr.parent:
                    v = fr.parent[v]
                    if v in last_on_node:
                        out[k] = last_on_node[v]
                        break
            last_on_node[u] = k
    return out


# ---------------------------------------------------------------------- sort keys


def sort_edges_key(model):
    return lambda e: (model.time(e[2]), e[2], e[3], e[0])


def sorted_copy(model):
    """The documented canonical sortedness requirements applied to a copy
    (edges: parent time, parent, child, left; sites: position; mutations: site, then
    existing relative order).  Mutation site/parent ids are remapped."""
    m = model.copy()
    m.edges = sorted(model.edges, key=sort_edges_key(model))
    order = sorted(range(len(model.sites)), key=lambda j: (model.sites[j][0], j))
    site_map = {old: new for new, old in enumerate(order)}
    m.sites = [model.sites[j] for j in order]
    morder = sorted(range(len(model.mutations)),
                    key=lambda k: (site_map[model.mutations[k][0]], k))
    mut_map = {old: new for new, old in enumerate(morder)}
    muts = []
    for k in morder:
        s, u, d, p, t, md = model.mutations[k]
        muts.append((site_map[s], u, d, mut_map[p] if p != NULL else NULL, t, md))
    m.mutations = muts
    m.migrations = sorted(model.migrations, key=lambda g: (g[5], g[3], g[4], g[0], g[2]))
    return m


def isclose(a, b, rtol=1e-9, atol=1e-12):
    if isinstance(a, float) and isinstance(b, float):
        if math.isnan(a) or math.isnan(b):
            return math.isnan(a) and math.isnan(b)
        if math.isinf(a) or math.isinf(b):
            return a == b
    return abs(a - b) <= atol + rtol * max(abs(a), abs(b))
