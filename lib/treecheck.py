"""check_tree: compare every derived view of a positioned tskit.Tree with the reference
Forest computed from the edge rows covering the tree's interval (C01, reused by C06)."""
import itertools
import math

import numpy as np

from lib.model import NULL, Forest, isclose


def chain(tree, u):
    """Children of u as reported by the linked-list arrays, with consistency checks."""
    lc, rc = tree.left_child_array, tree.right_child_array
    ls, rs = tree.left_sib_array, tree.right_sib_array
    out = []
    v = int(lc[u])
    prev = NULL
    guard = 0
    while v != NULL:
        if int(ls[v]) != prev:
            return None, f"left_sib[{v}]={ls[v]} expected {prev}"
        out.append(v)
        prev = v
        v = int(rs[v])
        guard += 1
        if guard > len(lc) + 1:
            return None, f"sibling chain of {u} does not terminate"
    if (int(rc[u]) if out else NULL) != (out[-1] if out else NULL) and not (not out and int(rc[u]) == NULL):
        return None, f"right_child[{u}]={rc[u]} but chain ends at {out[-1] if out else NULL}"
    return out, None


def expected_order(order, kids, roots, time_of):
    """Exact traversal sequences implied by the docstring, given reported child order."""
    out = []
    if order == "preorder":
        def rec(u):
            out.append(u)
            for c in kids(u):
                rec(c)
        for r in roots:
            rec(r)
    elif order == "postorder":
        def rec(u):
            for c in kids(u):
                rec(c)
            out.append(u)
        for r in roots:
            rec(r)
    elif order == "inorder":
        def rec(u):
            ch = kids(u)
            h = len(ch) // 2
            for c in ch[:h]:
                rec(c)
            out.append(u)
            for c in ch[h:]:
                rec(c)
        for r in roots:
            rec(r)
    elif order == "levelorder":
        q = list(roots)
        while q:
            out.extend(q)
            q = [c for u in q for c in kids(u)]
    return out


def minlex_postorder(kids_set, roots):
    """Direct computation: order children (and roots) by the minimum leaf id below them."""
    memo = {}

    def minleaf(u):
        if u not in memo:
            ch = kids_set(u)
            memo[u] = u if not ch else min(minleaf(c) for c in ch)
        return memo[u]

    out = []

    def rec(u):
        for c in sorted(kids_set(u), key=minleaf):
            rec(c)
        out.append(u)

    for r in sorted(roots, key=minleaf):
        rec(r)
    return out


class _MemoForest(Forest):
    """lib.model.Forest with the pure per-node queries memoised (same results, computed once per node)."""

    def __init__(self, model, parent):
        super().__init__(model, parent)
        self._memo = {}

    def _m(self, key, fn, *a):
        v = self._memo.get(key)
        if v is None:
            v = self._memo[key] = fn(*a)
        return v

    def descendants(self, u):
        return self._m(("d", u), Forest.descendants, self, u)

    def path_up(self, u):
        return self._m(("p", u), Forest.path_up, self, u)

    def samples_below(self, u, sample_set=None):
        if sample_set is not None:
            return Forest.samples_below(self, u, sample_set)
        return self._m(("s", u), Forest.samples_below, self, u)

    def roots(self, threshold=1):
        return self._m(("r", threshold), Forest.roots, self, threshold)


def check_tree(tree, model, opts, deep=True, rng=None, wide=False):
    """Returns a list of (key, message). opts: dict(sample_lists, root_threshold, tracked).

    wide=True adds the alternative entry points / argument forms of the same views (scalar accessors next to
    the *_array properties, per-tree sites on every path, deprecated get_* aliases, traversal root arguments,
    the mutation -> edge map).  It is off by default so that other importers (C06) keep their cost profile."""
    bad = []
    n = model.num_nodes
    left, right = tree.interval.left, tree.interval.right
    if not (0 <= left < right <= model.L):
        return [("interval", f"bad interval {left},{right}")]
    x = (left + right) / 2
    if wide:
        # C01 runs dozens of checks per tree of one (never mutated) model: share the reference computations.
        # Only the caching differs; the values are those of lib.model.Forest.
        cache = model.__dict__.setdefault("_treecheck_cache", {})
        fr = cache.get(("forest", x))
        if fr is None:
            fr = cache[("forest", x)] = _MemoForest(model, model.forest_at(x))
        bps = cache.get("bps")
        if bps is None:
            bps = cache["bps"] = model.breakpoints()
    else:
        fr = Forest(model, model.forest_at(x))
        bps = model.breakpoints()
    # (2) interval is a breakpoint pair
    try:
        i = bps.index(left)
        if bps[i + 1] != right:
            bad.append(("interval", f"interval ({left},{right}) is not consecutive breakpoints {bps}"))
        elif tree.index != i:
            bad.append(("index", f"tree.index={tree.index} but interval is breakpoint pair {i}"))
    except ValueError:
        bad.append(("interval", f"left {left} not an edge end-point {bps}"))
    # (1) parent array
    pa = tree.parent_array
    if len(pa) != n + 1:
        bad.append(("parent", f"parent_array length {len(pa)} != {n + 1}"))
        return bad
    exp = [fr.par(u) for u in range(n)] + [NULL]
    if list(map(int, pa)) != exp:
        bad.append(("parent", f"parent_array {list(map(int, pa))} expected {exp} at x={x}"))
        return bad
    thr = opts.get("root_threshold", 1)
    vroot = tree.virtual_root
    if vroot != n:
        bad.append(("virtual_root", f"virtual_root={vroot} expected {n}"))
    # (3) child lists
    kid_order = {}
    for u in range(n + 1):
        ch, err = chain(tree, u)
        if err:
            bad.append(("children", err))
            return bad
        kid_order[u] = ch
        expk = fr.kids(u) if u < n else fr.roots(thr)
        if set(ch) != set(expk) or len(ch) != len(expk):
            bad.append(("children", f"children of {u}: {ch} expected set {sorted(expk)} (x={x}, thr={thr})"))
        if int(tree.num_children_array[u]) != len(expk):
            bad.append(("num_children", f"num_children_array[{u}]={tree.num_children_array[u]} expected {len(expk)}"))
    if bad:
        return bad
    # (4) roots
    roots = list(tree.roots)
    exp_roots = fr.roots(thr)
    if roots != kid_order[n]:
        bad.append(("roots", f"tree.roots {roots} != virtual root child chain {kid_order[n]}"))
    if set(roots) != exp_roots:
        bad.append(("roots", f"roots {roots} expected {sorted(exp_roots)}"))
    if tree.num_roots != len(exp_roots):
        bad.append(("roots", f"num_roots {tree.num_roots} expected {len(exp_roots)}"))
    if tree.left_root != (roots[0] if roots else NULL):
        bad.append(("roots", f"left_root {tree.left_root} vs roots {roots}"))
    if len(exp_roots) == 1:
        if tree.root != next(iter(exp_roots)):
            bad.append(("roots", f"root {tree.root} expected {exp_roots}"))
    # (5) sample counts
    tracked = opts.get("tracked")
    tset = set(tracked) if tracked is not None else set()
    for u in range(n):
        sb = fr.samples_below(u)
        if tree.num_samples(u) != len(sb):
            bad.append(("num_samples", f"num_samples({u})={tree.num_samples(u)} expected {len(sb)} x={x}"))
        nt = len([s for s in sb if s in tset])
        if tree.num_tracked_samples(u) != nt:
            bad.append(("num_tracked", f"num_tracked_samples({u})={tree.num_tracked_samples(u)} expected {nt} "
                        f"tracked={sorted(tset)} x={x}"))
        if wide and n > 64 and u % (n // 32) != 0 and len(fr.kids(u)) < 2:
            continue  # structurally extreme instances: every branching node, a spread of the many leaves / unary nodes
        if wide and not deep and not opts.get("sample_lists"):
            # without sample lists samples(u) is a Python-side traversal of the child arrays verified above; it is
            # compared on every deep check.  With sample lists it reads incrementally maintained state: always.
            continue
        got = list(tree.samples(u))
        if sorted(got) != sorted(sb):
            bad.append(("samples", f"samples({u})={got} expected {sorted(sb)} sample_lists={opts.get('sample_lists')}"))
    allsamp = list(tree.samples())
    exp_all = sorted(s for r in exp_roots for s in fr.samples_below(r))
    every = sorted(model.samples())
    # documented as "all sample ids of the tree sequence"; implemented as "below the roots".  The two
    # differ only when root_threshold > 1 leaves samples outside every root: either is accepted there.
    if sorted(allsamp) != exp_all and sorted(allsamp) != every:
        bad.append(("samples", f"samples()={allsamp} expected {exp_all}"))
    if tree.num_samples() != len(every):
        bad.append(("num_samples", f"num_samples()={tree.num_samples()} expected {len(every)}"))
    if tree.num_samples(vroot) != len(every):
        bad.append(("num_samples", f"num_samples(virtual_root)={tree.num_samples(vroot)} expected {len(every)}"))
    # (6) edges
    ea = tree.edge_array
    eid = model.edge_ids_at(x)
    for u in range(n):
        if u in fr.parent:
            j = int(ea[u])
            if not (0 <= j < len(model.edges)):
                bad.append(("edge_array", f"edge_array[{u}]={j} out of range"))
                continue
            e = model.edges[j]
            if not (e[3] == u and e[2] == fr.parent[u] and e[0] <= x < e[1]):
                bad.append(("edge_array", f"edge_array[{u}]={j} is {e[:4]}, not an edge above {u} at {x}"))
        elif int(ea[u]) != NULL:
            bad.append(("edge_array", f"edge_array[{u}]={ea[u]} for parentless node"))
    if tree.num_edges != len(fr.parent):
        bad.append(("num_edges", f"num_edges={tree.num_edges} expected {len(fr.parent)}"))
    if wide:
        bad += _wide_shallow(tree, model, opts, fr, left, right, tset, tracked)
    if bad or not deep:
        return bad
    # (5b) leaves
    for u in range(n):
        expl = sorted(v for v in fr.descendants(u) if not fr.kids(v))
        got = sorted(tree.leaves(u))
        if got != expl:
            bad.append(("leaves", f"leaves({u})={got} expected {expl}"))
    # (7) pair queries
    nodes = list(range(n))
    pairs = list(itertools.combinations_with_replacement(nodes, 2))
    if len(pairs) > 40 and rng is not None:
        pairs = rng.sample(pairs, 40)
    for u, v in pairs:
        e = fr.mrca(u, v)
        g = tree.mrca(u, v)
        if g != e:
            bad.append(("mrca", f"mrca({u},{v})={g} expected {e}"))
        if e != NULL:
            if tree.tmrca(u, v) != model.time(e):
                bad.append(("tmrca", f"tmrca({u},{v})={tree.tmrca(u, v)} expected {model.time(e)}"))
        ed = v in fr.path_up(u)
        if tree.is_descendant(u, v) != ed:
            bad.append(("is_descendant", f"is_descendant({u},{v})={tree.is_descendant(u, v)} expected {ed}"))
        if ed:
            pl = fr.path_up(u).index(v)
            if tree.path_length(u, v) != pl:
                bad.append(("path_length", f"path_length({u},{v})={tree.path_length(u, v)} expected {pl}"))
    # multi-argument mrca / tmrca: the fold of the pairwise MRCA, NULL as soon as two arguments are disconnected
    if n >= 3:
        import random as _random
        r2 = rng or _random.Random(n * 7919 + len(model.edges))
        for _ in range(12):
            k = r2.choice([3, 3, 4, 5])
            args = [r2.randrange(n + 1) if r2.random() < 0.1 else r2.randrange(n) for _ in range(k)]
            e = args[0]
            for v in args[1:]:
                e = NULL if (e == NULL or e == n or v == n) else fr.mrca(e, v)
                if e == NULL:
                    break
            if n in args:
                continue  # the virtual root as an argument: what its MRCA with a real node is, is not documented
            g = tree.mrca(*args)
            if g != e:
                bad.append(("mrca", f"mrca{tuple(args)}={g} expected {e}"))
            try:
                tg = tree.tmrca(*args)
                if e == NULL:
                    bad.append(("tmrca", f"tmrca{tuple(args)}={tg} but the nodes share no ancestor (ValueError documented)"))
                elif tg != model.time(e):
                    bad.append(("tmrca", f"tmrca{tuple(args)}={tg} expected {model.time(e)}"))
            except ValueError:
                if e != NULL:
                    bad.append(("tmrca", f"tmrca{tuple(args)} raised ValueError but the MRCA is {e}"))
    tbl = 0.0
    reach = set()
    for r in exp_roots:
        reach.update(fr.descendants(r))
    for u in range(n):
        if tree.depth(u) != fr.depth(u):
            bad.append(("depth", f"depth({u})={tree.depth(u)} expected {fr.depth(u)}"))
        if tree.branch_length(u) != fr.branch_length(u):
            bad.append(("branch_length", f"branch_length({u})={tree.branch_length(u)} expected {fr.branch_length(u)}"))
        if tree.time(u) != model.time(u):
            bad.append(("time", f"time({u})"))
        if tree.is_sample(u) != model.is_sample(u):
            bad.append(("is_sample", f"is_sample({u})"))
        il = len(fr.kids(u)) == 0
        if tree.is_leaf(u) != il or tree.is_internal(u) != (not il):
            bad.append(("is_leaf", f"is_leaf({u})={tree.is_leaf(u)} expected {il}"))
        if tree.is_isolated(u) != fr.is_isolated(u):
            bad.append(("is_isolated", f"is_isolated({u})"))
        if u in reach:
            tbl += fr.branch_length(u)
        if tuple(tree.children(u)) != tuple(kid_order[u]):
            bad.append(("children", f"children({u})={tree.children(u)} vs arrays {kid_order[u]}"))
        if tree.parent(u) != fr.par(u):
            bad.append(("parent", f"parent({u})"))
    if not isclose(float(tree.total_branch_length), tbl, 1e-12, 0):
        bad.append(("total_branch_length", f"total_branch_length={tree.total_branch_length} expected {tbl}"))
    times = sorted({model.time(u) for u in range(n)})
    probe = times + [(a + b) / 2 for a, b in zip(times, times[1:])] + [times[0] - 1, times[-1] + 1] if times else [0.0]
    if len(probe) > 64:  # structurally extreme instances (C01 'big' family): a spread of probe times is enough
        probe = probe[:: max(1, len(probe) // 48)] + probe[-3:]
    for t in probe:
        e = sum(1 for c, p in fr.parent.items() if c in reach and model.time(c) <= t < model.time(p))
        g = tree.num_lineages(t)
        if g != e:
            bad.append(("num_lineages", f"num_lineages({t})={g} expected {e}"))
    # (8) traversals
    kids = lambda u: kid_order[u]  # noqa: E731
    for order in ("preorder", "postorder", "inorder", "levelorder"):
        got = list(tree.nodes(order=order))
        e = expected_order(order, kids, roots, model.time)
        if got != e:
            bad.append(("traversal", f"nodes(order={order})={got} expected {e} roots={roots}"))
        for u in (list(range(n)) + [vroot])[: 6 if n > 6 else n + 1]:
            got = list(tree.nodes(u, order=order))
            e = expected_order(order, kids, [u], model.time)
            if got != e:
                bad.append(("traversal", f"nodes({u}, order={order})={got} expected {e}"))
    reach_sorted = sorted(reach, key=lambda u: (model.time(u), u))
    got = list(tree.nodes(order="timeasc"))
    if got != reach_sorted:
        bad.append(("traversal", f"timeasc={got} expected {reach_sorted}"))
    got = list(tree.nodes(order="timedesc"))
    if got != reach_sorted[::-1]:
        bad.append(("traversal", f"timedesc={got} expected {reach_sorted[::-1]}"))
    got = list(tree.nodes(order="minlex_postorder"))
    e = minlex_postorder(lambda u: fr.kids(u), exp_roots)
    if got != e:
        bad.append(("traversal", f"minlex_postorder={got} expected {e}"))
    # array forms
    if list(map(int, tree.preorder())) != expected_order("preorder", kids, roots, None):
        bad.append(("traversal", "preorder() array"))
    if list(map(int, tree.postorder())) != expected_order("postorder", kids, roots, None):
        bad.append(("traversal", "postorder() array"))
    # (9) sites and mutations
    exp_sites = model.sites_in(left, right)
    got_sites = [s.id for s in tree.sites()]
    if got_sites != exp_sites:
        bad.append(("sites", f"tree.sites ids {got_sites} expected {exp_sites} in [{left},{right})"))
    if tree.num_sites != len(exp_sites):
        bad.append(("sites", f"num_sites {tree.num_sites} expected {len(exp_sites)}"))
    if wide:  # same lists as model.site_mutations, built once per model
        by_site = cache.get("site_muts")
        if by_site is None:
            by_site = cache["site_muts"] = {}
            for k, mu in enumerate(model.mutations):
                by_site.setdefault(mu[0], []).append(k)
        exp_muts = [k for j in exp_sites for k in by_site.get(j, [])]
    else:
        exp_muts = [k for j in exp_sites for k in model.site_mutations(j)]
    got_muts = [mu.id for mu in tree.mutations()]
    if got_muts != exp_muts:
        bad.append(("mutations", f"tree.mutations ids {got_muts} expected {exp_muts}"))
    if tree.num_mutations != len(exp_muts):
        bad.append(("mutations", f"num_mutations {tree.num_mutations}"))
    for s in tree.sites():
        ms = model.sites[s.id]
        if s.position != ms[0] or s.ancestral_state != ms[1] or s.metadata != ms[2]:
            bad.append(("sites", f"site {s.id} fields {s} expected {ms}"))
        for mu in s.mutations:
            mm = model.mutations[mu.id]
            tm = None if math.isnan(mu.time) else mu.time
            if (mu.site, mu.node, mu.derived_state, mu.parent, tm, mu.metadata) != mm:
                bad.append(("mutations", f"mutation {mu.id} fields {mu} expected {mm}"))
    # (7b) the remaining per-node views
    samples_order = list(tree.tree_sequence.samples())
    for u in range(n):
        anc = list(tree.ancestors(u))
        if anc != fr.path_up(u)[1:]:
            bad.append(("ancestors", f"ancestors({u})={anc} expected {fr.path_up(u)[1:]}"))
        if u in exp_roots:
            es = set(exp_roots) - {u}
        elif u in fr.parent:
            es = set(fr.kids(fr.parent[u])) - {u}
        else:
            es = set()
        gs = tree.siblings(u)
        if set(gs) != es or len(gs) != len(es):
            bad.append(("siblings", f"siblings({u})={gs} expected {sorted(es)}"))
        if tree.is_root(u) != (u in exp_roots):
            bad.append(("is_root", f"is_root({u})={tree.is_root(u)} roots={sorted(exp_roots)}"))
        if tree.edge(u) != int(ea[u]):
            bad.append(("edge", f"edge({u})={tree.edge(u)} edge_array={int(ea[u])}"))
        if tree.population(u) != model.nodes[u][2]:
            bad.append(("population", f"population({u})"))
        if tree.num_children(u) != len(fr.kids(u)):
            bad.append(("num_children", f"num_children({u})={tree.num_children(u)}"))
    if tree.parent_dict != fr.parent:
        bad.append(("parent_dict", f"parent_dict={tree.parent_dict} expected {fr.parent}"))
    dod = tree.as_dict_of_dicts()
    exp_dod = {u: {c: {"branch_length": fr.branch_length(c)} for c in fr.kids(u)} for u in reach}
    if dod != exp_dod:
        bad.append(("as_dict_of_dicts", f"as_dict_of_dicts={dod} expected {exp_dod}"))
    if tree.has_single_root != (len(exp_roots) == 1) or tree.has_multiple_roots != (len(exp_roots) > 1):
        bad.append(("roots", "has_single_root/has_multiple_roots"))
    if tree.right_root != (roots[-1] if roots else NULL):
        bad.append(("roots", f"right_root={tree.right_root} roots={roots}"))
    if tree.span != right - left or tree.mid != left + (right - left) / 2:
        bad.append(("interval", f"span={tree.span} mid={tree.mid} for [{left},{right})"))
    for u, v in pairs[:10]:
        e = fr.mrca(u, v)
        if e != NULL:
            d = 2 * model.time(e) - model.time(u) - model.time(v)
            if not isclose(float(tree.distance_between(u, v)), d, 1e-12, 1e-12):
                bad.append(("distance_between", f"distance_between({u},{v})={tree.distance_between(u, v)} expected {d}"))
    if opts.get("sample_lists"):
        for u in range(n):
            sb = set(fr.samples_below(u))
            got = []
            i = tree.left_sample(u)
            if (i == NULL) != (not sb):
                bad.append(("sample_lists", f"left_sample({u})={i} but samples below are {sorted(sb)}"))
                continue
            guard = 0
            while i != NULL and guard <= len(samples_order):
                got.append(int(samples_order[i]))
                if i == tree.right_sample(u):
                    break
                i = tree.next_sample(i)
                guard += 1
            if sorted(got) != sorted(sb):
                bad.append(("sample_lists", f"left/next/right_sample walk below {u} gives {got}, expected {sorted(sb)}"))
    # balance indices where defined
    if len(exp_roots) == 1:
        root0 = next(iter(exp_roots))
        maxpath = {}

        def mp(v):
            if v not in maxpath:
                maxpath[v] = 0 if not fr.kids(v) else 1 + max(mp(c) for c in fr.kids(v))
            return maxpath[v]

        b1 = sum(1.0 / mp(v) for v in fr.descendants(root0) if fr.kids(v) and v != root0)
        try:
            if not isclose(float(tree.b1_index()), b1, 1e-12, 1e-15):
                bad.append(("balance", f"b1_index {tree.b1_index()} expected {b1}"))
        except Exception as ex:  # noqa: BLE001
            bad.append(("balance", f"b1_index raised {ex!r}"))
        b2 = 0.0
        stack = [(root0, 1.0)]
        while stack:
            v, pr = stack.pop()
            if not fr.kids(v):
                b2 -= pr * math.log(pr, 10)
            for c in fr.kids(v):
                stack.append((c, pr / len(fr.kids(v))))
        try:
            if not isclose(float(tree.b2_index()), b2, 1e-9, 1e-12):
                bad.append(("balance", f"b2_index {tree.b2_index()} expected {b2}"))
        except Exception as ex:  # noqa: BLE001
            bad.append(("balance", f"b2_index raised {ex!r}"))
    if len(exp_roots) == 1:
        root = next(iter(exp_roots))
        sack = sum(fr.depth(v) for v in fr.descendants(root) if not fr.kids(v))
        try:
            if tree.sackin_index() != sack:
                bad.append(("balance", f"sackin {tree.sackin_index()} expected {sack}"))
        except Exception as ex:  # noqa: BLE001
            bad.append(("balance", f"sackin_index raised {ex!r}"))
        isbin = all(len(fr.kids(v)) in (0, 2) for v in fr.descendants(root))
        if isbin:
            nl = {}
            for v in fr.descendants(root):
                nl[v] = len([w for w in fr.descendants(v) if not fr.kids(w)])
            col = 0
            for v in fr.descendants(root):
                k = sorted(fr.kids(v))
                if len(k) == 2:
                    col += abs(nl[k[0]] - nl[k[1]])
            try:
                if tree.colless_index() != col:
                    bad.append(("balance", f"colless {tree.colless_index()} expected {col}"))
            except Exception as ex:  # noqa: BLE001
                bad.append(("balance", f"colless_index raised {ex!r}"))
    if wide:
        bad += _wide_deep(tree, model, opts, fr, kid_order, roots, exp_roots, reach, x, left, right, tset, tracked,
                          rng)
    return bad


def _pick_nodes(n, rng, k):
    """A few node ids: the extremes plus a deterministic / rng spread (all of them when n is small)."""
    if n <= k:
        return list(range(n))
    out = {0, n - 1, n // 2}
    import random as _random
    r = rng or _random.Random(n * 104729 + k)
    while len(out) < k:
        out.add(r.randrange(n))
    return sorted(out)


def _wide_shallow(tree, model, opts, fr, left, right, tset, tracked):
    """Cheap alternative forms checked on EVERY access path (iteration, reversed, at, at_index, first/last,
    copies, reused trees): the per-node accessor *methods* next to the arrays, the tree's site list (it is set
    by the same C routine that sets index and interval, separately on next/prev/seek/copy), totals without
    arguments, constructor options read back."""
    bad = []
    n = model.num_nodes
    arrays = (("parent", tree.parent_array), ("left_child", tree.left_child_array),
              ("right_child", tree.right_child_array), ("left_sib", tree.left_sib_array),
              ("right_sib", tree.right_sib_array), ("num_children", tree.num_children_array),
              ("edge", tree.edge_array))
    # an accessor that reads the wrong array is wrong for (nearly) every node: a spread of nodes suffices
    nodes = list(range(n + 1)) if n <= 6 else [0, n // 3, n // 2, n - 1, n, (tree.index * 7 + 1) % n]
    for name, arr in arrays:
        if len(arr) != n + 1:
            bad.append(("scalar/" + name, f"{name}_array has length {len(arr)}, expected {n + 1}"))
            continue
        fn = getattr(tree, name)
        for u in nodes:
            g = fn(u)
            if g != int(arr[u]):
                bad.append(("scalar/" + name, f"{name}({u})={g} but {name}_array[{u}]={int(arr[u])}"))
                break
    # sites of this tree: ids of the site rows with left <= position < right, in id order
    exp_sites = model.sites_in(left, right)
    if tree.num_sites != len(exp_sites):
        bad.append(("sites", f"num_sites {tree.num_sites} expected {len(exp_sites)} in [{left},{right})"))
    elif len(exp_sites) <= 8:  # (densely decorated msprime instances: the deep check lists them all)
        got_sites = [s.id for s in tree.sites()]
        if got_sites != exp_sites:
            bad.append(("sites", f"tree.sites ids {got_sites} expected {exp_sites} in [{left},{right})"))
    # totals: no argument == virtual root == all tracked samples ("the total number of tracked samples in the tree")
    nt = len(tset)
    if tree.num_tracked_samples() != nt or tree.num_tracked_samples(tree.virtual_root) != nt:
        bad.append(("num_tracked", f"num_tracked_samples()={tree.num_tracked_samples()} "
                    f"num_tracked_samples(virtual_root)={tree.num_tracked_samples(tree.virtual_root)} expected {nt}"))
    if tree.root_threshold != opts.get("root_threshold", 1):
        bad.append(("options", f"root_threshold={tree.root_threshold} expected {opts.get('root_threshold', 1)}"))
    if tree.sample_size != len(model.samples()):
        bad.append(("options", f"sample_size={tree.sample_size} expected {len(model.samples())}"))
    return bad


def _subtree_sorted(model, fr, u, n, roots):
    """Nodes of the traversal from u ordered by (time, id); the virtual root has time +inf and stands above the roots."""
    if u == n:
        nodes = [v for r in roots for v in fr.descendants(r)]
        return sorted(nodes, key=lambda v: (model.time(v), v)) + [n]
    return sorted(fr.descendants(u), key=lambda v: (model.time(v), v))


def _wide_deep(tree, model, opts, fr, kid_order, roots, exp_roots, reach, x, left, right, tset, tracked, rng):
    import warnings

    bad = []
    n = model.num_nodes
    vroot = n
    kids = lambda u: kid_order[u]  # noqa: E731
    some = _pick_nodes(n, rng, 3)
    # (8b) traversal root arguments for the remaining orders, array forms with a root, the levelorder alias
    for u in some + [vroot]:
        e = _subtree_sorted(model, fr, u, n, exp_roots)
        got = list(tree.nodes(u, order="timeasc"))
        if got != e:
            bad.append(("traversal", f"nodes({u}, order=timeasc)={got} expected {e}"))
        got = list(tree.nodes(u, order="timedesc"))
        if got != e[::-1]:
            bad.append(("traversal", f"nodes({u}, order=timedesc)={got} expected {e[::-1]}"))
        if u == vroot:
            e = minlex_postorder(lambda v: fr.kids(v), exp_roots) + [vroot]
        else:
            e = minlex_postorder(lambda v: fr.kids(v), [u])
        got = list(tree.nodes(u, order="minlex_postorder"))
        if got != e:
            bad.append(("traversal", f"nodes({u}, order=minlex_postorder)={got} expected {e}"))
        if list(map(int, tree.preorder(u))) != expected_order("preorder", kids, [u], None):
            bad.append(("traversal", f"preorder({u}) array {list(tree.preorder(u))}"))
        if list(map(int, tree.postorder(u))) != expected_order("postorder", kids, [u], None):
            bad.append(("traversal", f"postorder({u}) array {list(tree.postorder(u))}"))
        got = list(tree.nodes(u, order="breadthfirst"))
        e = expected_order("levelorder", kids, [u], None)
        if got != e:
            bad.append(("traversal", f"nodes({u}, order=breadthfirst)={got} expected {e}"))
    if list(tree.nodes(order="breadthfirst")) != expected_order("levelorder", kids, roots, None):
        bad.append(("traversal", "nodes(order=breadthfirst) differs from the level order"))
    if list(tree.nodes(None, "postorder")) != expected_order("postorder", kids, roots, None):
        bad.append(("traversal", "nodes(None, 'postorder') positional form"))
    e = sorted(reach, key=lambda v: (model.time(v), v))
    if list(map(int, tree.timeasc())) != e or list(map(int, tree.timedesc())) != e[::-1]:
        bad.append(("traversal", f"timeasc()/timedesc() arrays {list(tree.timeasc())} expected {e} and its reverse"))
    # leaves() without an argument: the leaves reachable from the roots
    e = sorted(v for v in reach if not fr.kids(v))
    got = sorted(tree.leaves())
    if got != e:
        bad.append(("leaves", f"leaves()={got} expected {e}"))
    # (9b) the edge each mutation sits on: the edge above its node at the site's position, NULL for a parentless node
    for s in tree.sites():
        eid = model.edge_ids_at(s.position)
        for mu in list(s.mutations) + [tree.tree_sequence.mutation(mu.id) for mu in s.mutations]:
            e = eid.get(mu.node, NULL)
            if mu.edge != e:
                bad.append(("mutation-edge", f"mutation {mu.id} on node {mu.node} at position {s.position}: "
                            f"edge={mu.edge} expected {e}"))
    # pair queries the base check leaves out: no common ancestor -> path_length is infinite and the two-argument
    # tmrca / distance_between raise ValueError ("if the nodes do not share a single common ancestor")
    cand = some + sorted(exp_roots)[:3]
    for u, v in [(a, b) for a in cand for b in cand if a <= b][:12]:
        e = fr.mrca(u, v)
        pl = tree.path_length(u, v)
        epl = math.inf if e == NULL else fr.depth(u) + fr.depth(v) - 2 * fr.depth(e)
        if pl != epl:
            bad.append(("path_length", f"path_length({u},{v})={pl} expected {epl} (mrca {e})"))
        for name in ("tmrca", "distance_between"):
            try:
                g = getattr(tree, name)(u, v)
                ex = model.time(e) if name == "tmrca" else 2 * model.time(e) - model.time(u) - model.time(v)
                if e == NULL:
                    bad.append((name, f"{name}({u},{v})={g} but the nodes share no ancestor (ValueError documented)"))
                elif not isclose(float(g), float(ex), 1e-12, 1e-12):
                    bad.append((name, f"{name}({u},{v})={g} expected {ex}"))
            except ValueError:
                if e != NULL:
                    bad.append((name, f"{name}({u},{v}) raised ValueError but the MRCA is {e}"))
    # the virtual root's documented special values
    if tree.depth(vroot) != -1 or tree.time(vroot) != math.inf or tree.parent(vroot) != NULL \
            or tree.edge(vroot) != NULL or tuple(tree.siblings(vroot)) != ():
        bad.append(("virtual_root", f"depth/time/parent/edge/siblings of the virtual root: {tree.depth(vroot)} "
                    f"{tree.time(vroot)} {tree.parent(vroot)} {tree.edge(vroot)} {tree.siblings(vroot)}"))
    if sorted(tree.children(vroot)) != sorted(exp_roots) or tree.num_children(vroot) != len(exp_roots):
        bad.append(("virtual_root", f"children(virtual_root)={tree.children(vroot)} expected roots {sorted(exp_roots)}"))
    # b2 with another base of the logarithm: -sum p log_base p over the leaves, p from a uniform random walk
    if len(exp_roots) == 1:
        b2 = 0.0
        stack = [(next(iter(exp_roots)), 1.0)]
        while stack:
            v, pr = stack.pop()
            if not fr.kids(v):
                b2 -= pr * math.log(pr, 2)
            for c in fr.kids(v):
                stack.append((c, pr / len(fr.kids(v))))
        try:
            g = float(tree.b2_index(base=2))
            if not isclose(g, b2, 1e-9, 1e-12) or not isclose(float(tree.b2_index(2)), b2, 1e-9, 1e-12):
                bad.append(("balance", f"b2_index(base=2) {g} expected {b2}"))
        except Exception as ex:  # noqa: BLE001
            bad.append(("balance", f"b2_index(base=2) raised {ex!r}"))
    # interval / span forms
    iv = tree.interval
    if (iv[0], iv[1]) != (left, right) or iv.span != right - left or iv.mid != left + (right - left) / 2:
        bad.append(("interval", f"interval {iv} span/mid forms"))
    # more than one root: .root is documented to raise ValueError
    if len(exp_roots) > 1:
        try:
            bad.append(("roots", f"root={tree.root} returned with {len(exp_roots)} roots (ValueError documented)"))
        except ValueError:
            pass
    # deprecated aliases: each must give the value of the documented method (compared with the reference, not
    # with the method itself)
    with warnings.catch_warnings():
        warnings.simplefilter("ignore")
        al = []
        for u in some:
            sb = fr.samples_below(u)
            al += [
                (f"get_parent({u})", tree.get_parent(u), fr.par(u)),
                (f"get_children({u})", sorted(tree.get_children(u)), sorted(fr.kids(u))),
                (f"get_time({u})", tree.get_time(u), model.time(u)),
                (f"get_branch_length({u})", tree.get_branch_length(u), fr.branch_length(u)),
                (f"get_population({u})", tree.get_population(u), model.nodes[u][2]),
                (f"get_num_samples({u})", tree.get_num_samples(u), len(sb)),
                (f"get_num_leaves({u})", tree.get_num_leaves(u), len(sb)),
                (f"get_num_tracked_samples({u})", tree.get_num_tracked_samples(u), len([s for s in sb if s in tset])),
                (f"get_num_tracked_leaves({u})", tree.get_num_tracked_leaves(u), len([s for s in sb if s in tset])),
                (f"get_leaves({u})", sorted(tree.get_leaves(u)), sorted(sb)),
            ]
            v = some[-1]
            e = fr.mrca(u, v)
            al.append((f"get_mrca({u},{v})", tree.get_mrca(u, v), e))
            if e != NULL:
                al.append((f"get_tmrca({u},{v})", tree.get_tmrca(u, v), model.time(e)))
                al.append((f"mrca(np.int32({u}),np.int64({v}))", tree.mrca(np.int32(u), np.int64(v)), e))
            al.append((f"parent(np.int32({u}))", tree.parent(np.int32(u)), fr.par(u)))
            al.append((f"num_samples(np.int64({u}))", tree.num_samples(np.int64(u)), len(sb)))
        al += [
            ("get_index()", tree.get_index(), tree.index),
            ("get_interval()", tuple(tree.get_interval()), (left, right)),
            ("get_length()", tree.get_length(), right - left),
            ("length", tree.length, right - left),
            ("get_sample_size()", tree.get_sample_size(), len(model.samples())),
            ("get_num_samples()", tree.get_num_samples(), len(model.samples())),
            ("get_num_tracked_samples()", tree.get_num_tracked_samples(), len(tset)),
            ("get_parent_dict()", tree.get_parent_dict(), fr.parent),
            ("num_nodes", tree.num_nodes, n),
            ("get_num_mutations()", tree.get_num_mutations(),
             sum(1 for mu in model.mutations if left <= model.sites[mu[0]][0] < right)),
        ]
        if len(exp_roots) == 1:
            al.append(("get_root()", tree.get_root(), next(iter(exp_roots))))
        for what, g, e in al:
            if g != e:
                bad.append(("alias", f"{what}={g} expected {e}"))
        g = float(tree.get_total_branch_length())
        if not isclose(g, float(tree.total_branch_length), 1e-12, 0):
            bad.append(("alias", f"get_total_branch_length()={g} but total_branch_length={tree.total_branch_length}"))
    return bad


def observable_state(tree, n):
    """Order-insensitive observable state of a Tree (for the C06 fresh-tree comparison)."""
    kids = []
    for u in range(n + 1):
        ch, err = chain(tree, u)
        kids.append(tuple(sorted(ch)) if ch is not None else ("ERR", err))
    return {
        "index": tree.index,
        "interval": tuple(tree.interval),
        "parent": tuple(int(v) for v in tree.parent_array),
        "kids": tuple(kids),
        "num_children": tuple(int(v) for v in tree.num_children_array),
        "edge": tuple(int(v) for v in tree.edge_array),
        "num_edges": tree.num_edges,
        "num_samples": tuple(tree.num_samples(u) for u in range(n + 1)),
        "num_tracked": tuple(tree.num_tracked_samples(u) for u in range(n + 1)),
        "samples": tuple(tuple(sorted(tree.samples(u))) for u in range(n)),
        "roots": tuple(sorted(tree.roots)),
        "sites": tuple(s.id for s in tree.sites()),
        "muts": tuple(mu.id for mu in tree.mutations()),
        "tbl": float(tree.total_branch_length),
        "num_roots": tree.num_roots,
    }
