"""RowModel <-> tskit conversions (the only trusted base: low-level column accessors)."""
import numpy as np
import tskit

from lib.model import NULL, RowModel


def to_tables(m, with_index=False):
    tc = tskit.TableCollection(m.L)
    for name, schema in m.schemas.items():
        getattr(tc, name).metadata_schema = tskit.metadata.parse_metadata_schema(schema) if isinstance(schema, str) else schema
    for md, in m.populations:
        tc.populations.add_row(metadata=md)
    for fl, loc, par, md in m.individuals:
        tc.individuals.add_row(flags=fl, location=list(loc), parents=list(par), metadata=md)
    for fl, t, pop, ind, md in m.nodes:
        tc.nodes.add_row(flags=fl, time=t, population=pop, individual=ind, metadata=md)
    for l, r, p, c, md in m.edges:
        tc.edges.add_row(l, r, p, c, metadata=md)
    for pos, anc, md in m.sites:
        tc.sites.add_row(pos, anc, metadata=md)
    for s, u, d, p, t, md in m.mutations:
        tc.mutations.add_row(site=s, node=u, derived_state=d, parent=p,
                             time=tskit.UNKNOWN_TIME if t is None else t, metadata=md)
    for l, r, u, src, dst, t, md in m.migrations:
        tc.migrations.add_row(l, r, u, src, dst, t, metadata=md)
    for ts_, rec in m.provenances:
        tc.provenances.add_row(rec, timestamp=ts_)
    if m.metadata_schema:
        tc.metadata_schema = tskit.metadata.parse_metadata_schema(m.metadata_schema)
    if m.metadata:
        tc.metadata = m.metadata
    if m.time_units != "unknown":
        tc.time_units = m.time_units
    if m.refseq is not None:
        rs = tc.reference_sequence
        if m.refseq.get("metadata_schema"):
            rs.metadata_schema = tskit.metadata.parse_metadata_schema(m.refseq["metadata_schema"])
        if m.refseq.get("metadata"):
            rs.metadata = m.refseq["metadata"]
        if m.refseq.get("data") is not None:
            rs.data = m.refseq["data"]
        if m.refseq.get("url"):
            rs.url = m.refseq["url"]
    if with_index:
        tc.build_index()
    return tc


def to_ts(m):
    tc = to_tables(m)
    return tc.tree_sequence()


def _ragged(data, off):
    data = np.asarray(data)
    return [data[off[j]:off[j + 1]] for j in range(len(off) - 1)]


def _rb(data, off):
    b = np.asarray(data).tobytes()
    return [b[off[j]:off[j + 1]] for j in range(len(off) - 1)]


def from_tables(tc):
    """Read a RowModel back through raw columns only."""
    m = RowModel(tc.sequence_length)
    t = tc.nodes
    md = _rb(t.metadata, t.metadata_offset)
    m.nodes = [(int(t.flags[j]), float(t.time[j]), int(t.population[j]), int(t.individual[j]), md[j])
               for j in range(t.num_rows)]
    t = tc.edges
    md = _rb(t.metadata, t.metadata_offset)
    m.edges = [(float(t.left[j]), float(t.right[j]), int(t.parent[j]), int(t.child[j]), md[j])
               for j in range(t.num_rows)]
    t = tc.sites
    md = _rb(t.metadata, t.metadata_offset)
    anc = _rb(t.ancestral_state, t.ancestral_state_offset)
    m.sites = [(float(t.position[j]), anc[j].decode("utf8", "surrogateescape"), md[j])
               for j in range(t.num_rows)]
    t = tc.mutations
    md = _rb(t.metadata, t.metadata_offset)
    der = _rb(t.derived_state, t.derived_state_offset)
    unk = tskit.is_unknown_time(t.time)
    m.mutations = [(int(t.site[j]), int(t.node[j]), der[j].decode("utf8", "surrogateescape"),
                    int(t.parent[j]), None if unk[j] else float(t.time[j]), md[j])
                   for j in range(t.num_rows)]
    t = tc.individuals
    md = _rb(t.metadata, t.metadata_offset)
    loc = _ragged(t.location, t.location_offset)
    par = _ragged(t.parents, t.parents_offset)
    m.individuals = [(int(t.flags[j]), tuple(float(x) for x in loc[j]), tuple(int(x) for x in par[j]), md[j])
                     for j in range(t.num_rows)]
    t = tc.populations
    md = _rb(t.metadata, t.metadata_offset)
    m.populations = [(md[j],) for j in range(t.num_rows)]
    t = tc.migrations
    md = _rb(t.metadata, t.metadata_offset)
    m.migrations = [(float(t.left[j]), float(t.right[j]), int(t.node[j]), int(t.source[j]),
                     int(t.dest[j]), float(t.time[j]), md[j]) for j in range(t.num_rows)]
    t = tc.provenances
    tsx = _rb(t.timestamp, t.timestamp_offset)
    rec = _rb(t.record, t.record_offset)
    m.provenances = [(tsx[j].decode(), rec[j].decode()) for j in range(t.num_rows)]
    m.metadata = tc.metadata_bytes
    m.metadata_schema = repr(tc.metadata_schema)
    m.time_units = tc.time_units
    for name in ("nodes", "edges", "sites", "mutations", "individuals", "populations", "migrations"):
        s = repr(getattr(tc, name).metadata_schema)
        if s:
            m.schemas[name] = s
    if tc.has_reference_sequence():
        rs = tc.reference_sequence
        m.refseq = {"data": rs.data, "url": rs.url, "metadata": rs.metadata_bytes,
                    "metadata_schema": repr(rs.metadata_schema)}
    return m


def tables_bytes(tc):
    """Canonical byte snapshot of every column of a table collection (for 'unchanged' checks)."""
    d = tc.asdict()
    out = []

    def walk(prefix, x):
        if isinstance(x, dict):
            for k in sorted(x):
                walk(prefix + "/" + k, x[k])
        elif isinstance(x, np.ndarray):
            out.append((prefix, str(x.dtype), x.tobytes()))
        else:
            out.append((prefix, "py", repr(x)))

    walk("", d)
    return out


# ---------------------------------------------------------------------------------------------
# Column-level conversions (added for C05/C13; additive).  Row tuple layouts are those of RowModel.
# kind: u4/i4/f8 fixed columns; T = mutation time (None <-> UNKNOWN_TIME); B = ragged bytes;
# S = ragged utf8 text (str in the model); Rf8 / Ri4 = ragged numeric arrays (tuples in the model).
SPEC = {
    "nodes": (("flags", "u4"), ("time", "f8"), ("population", "i4"), ("individual", "i4"), ("metadata", "B")),
    "edges": (("left", "f8"), ("right", "f8"), ("parent", "i4"), ("child", "i4"), ("metadata", "B")),
    "sites": (("position", "f8"), ("ancestral_state", "S"), ("metadata", "B")),
    "mutations": (("site", "i4"), ("node", "i4"), ("derived_state", "S"), ("parent", "i4"), ("time", "T"),
                  ("metadata", "B")),
    "individuals": (("flags", "u4"), ("location", "Rf8"), ("parents", "Ri4"), ("metadata", "B")),
    "populations": (("metadata", "B"),),
    "migrations": (("left", "f8"), ("right", "f8"), ("node", "i4"), ("source", "i4"), ("dest", "i4"),
                   ("time", "f8"), ("metadata", "B")),
    "provenances": (("timestamp", "S"), ("record", "S")),
}
_FIXED = {"u4": np.uint32, "i4": np.int32, "f8": np.float64}


def is_ragged(kind):
    return kind in ("B", "S", "Rf8", "Ri4")


def pack_ragged(kind, entries):
    """(flat array, uint64 offsets) for a list of per-row values, computed in plain Python."""
    off = [0]
    if kind in ("B", "S"):
        bs = [e.encode("utf8", "surrogateescape") if isinstance(e, str) else bytes(e) for e in entries]
        for b in bs:
            off.append(off[-1] + len(b))
        flat = np.frombuffer(b"".join(bs), dtype=np.int8).copy()
    else:
        dt = np.float64 if kind == "Rf8" else np.int32
        vals = []
        for e in entries:
            vals.extend(e)
            off.append(off[-1] + len(e))
        flat = np.array(vals, dtype=dt)
    return flat, np.array(off, dtype=np.uint64)


def columns_from_rows(name, rows):
    """dict of numpy columns (as accepted by set_columns/append_columns) for a list of row tuples."""
    out = {}
    for j, (col, kind) in enumerate(SPEC[name]):
        vals = [r[j] for r in rows]
        if kind in _FIXED:
            out[col] = np.array(vals, dtype=_FIXED[kind])
        elif kind == "T":
            out[col] = np.array([tskit.UNKNOWN_TIME if v is None else v for v in vals], dtype=np.float64)
        else:
            out[col], out[col + "_offset"] = pack_ragged(kind, vals)
    return out


def rows_from_columns(name, d):
    """Row tuples read back from raw columns (d: mapping column name -> array, e.g. table.asdict())."""
    spec = SPEC[name]
    percol = []
    n = None
    for col, kind in spec:
        if kind in _FIXED:
            a = np.asarray(d[col])
            vals = [int(x) for x in a] if kind != "f8" else [float(x) for x in a]
        elif kind == "T":
            a = np.asarray(d[col])
            unk = tskit.is_unknown_time(a)
            vals = [None if unk[j] else float(a[j]) for j in range(len(a))]
        else:
            off = [int(x) for x in np.asarray(d[col + "_offset"])]
            flat = np.asarray(d[col])
            if kind == "B":
                b = flat.tobytes()
                vals = [b[off[j]:off[j + 1]] for j in range(len(off) - 1)]
            elif kind == "S":
                b = flat.tobytes()
                vals = [b[off[j]:off[j + 1]].decode("utf8", "surrogateescape") for j in range(len(off) - 1)]
            elif kind == "Rf8":
                vals = [tuple(float(x) for x in flat[off[j]:off[j + 1]]) for j in range(len(off) - 1)]
            else:
                vals = [tuple(int(x) for x in flat[off[j]:off[j + 1]]) for j in range(len(off) - 1)]
        if n is None:
            n = len(vals)
        percol.append(vals)
    return [tuple(c[j] for c in percol) for j in range(n or 0)]
