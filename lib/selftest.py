"""run.py selftest [CXX ...] [--seeded] — prove the monitors fire.

Applies every mutants/<ID>-*.patch (or seeded/<name>/patch.diff with --seeded) to a scratch git worktree of
/repo's HEAD under a temp dir, runs the property's quick check against it (VERIF_REPO=<worktree>) and expects
exit 1.  The worktree is removed afterwards.  Results go to mutants/RESULTS.json (or seeded/RESULTS.json).
"""
import glob
import json
import os
import re
import subprocess
import sys
import tempfile
import time

HERE = os.path.dirname(os.path.dirname(os.path.abspath(__file__)))
REPO = os.environ.get("VERIF_REPO", "/repo")


def run(cmd, **kw):
    return subprocess.run(cmd, capture_output=True, text=True, **kw)


def one(patch, prop, tier="quick", extra_props=()):
    wt = tempfile.mkdtemp(prefix="verif-selftest-")
    os.rmdir(wt)
    r = run(["git", "-C", REPO, "worktree", "add", "-q", "--detach", wt, "HEAD"])
    if r.returncode != 0:
        return {"patch": patch, "status": "worktree-failed", "detail": r.stderr[-300:]}
    try:
        r = run(["git", "-C", wt, "apply", "--whitespace=nowarn", patch])
        if r.returncode != 0:
            r = run(["git", "-C", wt, "apply", "--3way", "--whitespace=nowarn", patch])
        if r.returncode != 0:
            return {"patch": patch, "status": "does-not-apply", "detail": r.stderr[-300:]}
        out = {"patch": os.path.relpath(patch, HERE), "property": prop, "results": {}}
        for p in (prop,) + tuple(extra_props):
            env = dict(os.environ, VERIF_REPO=wt)
            t0 = time.time()
            r = run([sys.executable, os.path.join(HERE, "run.py"), "check", p, "--tier", tier], env=env, cwd=HERE)
            keys = sorted(set(re.findall(r"^\s+\[([^\]]+)\]", r.stdout, flags=re.M)))[:6]
            out["results"][p] = {"exit": r.returncode, "wall_s": round(time.time() - t0, 1), "keys": keys,
                                 "summary": (r.stdout.strip().splitlines() or [""])[-1][:300] if r.returncode != 1 else
                                 [ln for ln in r.stdout.splitlines() if ln.startswith(p + " tier=")][:1]}
        out["status"] = "caught" if out["results"][prop]["exit"] == 1 else (
            "caught-by-other" if any(v["exit"] == 1 for v in out["results"].values()) else "MISSED")
        return out
    finally:
        run(["git", "-C", REPO, "worktree", "remove", "--force", wt])
        # evidence files written while pointing at a mutant must not stay around as if they described /repo
        for p in (prop,) + tuple(extra_props):
            ev = os.path.join(HERE, "evidence", f"{p}.json")
            run(["git", "-C", HERE, "checkout", "--", ev])


def main(argv):
    seeded = "--seeded" in argv
    ids = [a for a in argv if re.fullmatch(r"C\d\d", a)]
    results = []
    if seeded:
        from concurrent.futures import ThreadPoolExecutor
        par = int(os.environ.get("VERIF_SELFTEST_PARALLEL", "1"))
        todo = []
        for patch in sorted(glob.glob(os.path.join(HERE, "seeded", "*", "patch.diff"))):
            meta = json.load(open(os.path.join(os.path.dirname(patch), "meta.json")))
            prop = meta["property"]
            if ids and prop not in ids:
                continue
            match = os.environ.get("VERIF_SELFTEST_MATCH")   # regex on the seed directory name, e.g. 'C..-[67]$'
            if match and not re.search(match, os.path.basename(os.path.dirname(patch))):
                continue
            todo.append((patch, prop, tuple(meta.get("also_check", []))))

        def sjob(a):
            res = one(a[0], a[1], extra_props=a[2])
            res["seed"] = os.path.basename(os.path.dirname(a[0]))
            print(json.dumps(res)[:400], flush=True)
            return res

        with ThreadPoolExecutor(par) as ex:
            results = list(ex.map(sjob, todo))
        dest = os.path.join(HERE, "seeded", "RESULTS.json")
    else:
        from concurrent.futures import ThreadPoolExecutor
        par = int(os.environ.get("VERIF_SELFTEST_PARALLEL", "1"))
        todo = []
        for patch in sorted(glob.glob(os.path.join(HERE, "mutants", "C*-*.patch"))):
            prop = os.path.basename(patch)[:3]
            if ids and prop not in ids:
                continue
            todo.append((patch, prop))

        def job(a):
            res = one(a[0], a[1])
            print(json.dumps(res)[:400], flush=True)
            return res

        with ThreadPoolExecutor(par) as ex:
            results = list(ex.map(job, todo))
        dest = os.path.join(HERE, "mutants", "RESULTS.json")
    dest = os.environ.get("VERIF_SELFTEST_DEST", dest)
    old = []
    if os.path.exists(dest) and (ids or os.environ.get("VERIF_SELFTEST_MATCH")):
        redone = {r.get("seed") or r.get("patch") for r in results}
        old = [r for r in json.load(open(dest)) if (r.get("seed") or r.get("patch")) not in redone
               and (seeded or r.get("property") not in ids)]
    with open(dest, "w") as f:
        json.dump(old + results, f, indent=1)
    missed = [r for r in results if r.get("status") not in ("caught", "caught-by-other")]
    print(f"selftest: {len(results) - len(missed)}/{len(results)} caught; not caught: {[r['patch'] for r in missed]}")
    return 0 if not missed else 1
