#!/bin/bash
# process_seed.sh CXX ROUND : confirm the round-ROUND seed of CXX (worktree /tmp/seed<ROUND>-CXX), store it as seeded/CXX-<ROUND>,
# run the property's quick check against it, print the verdict, remove the worktree.
P=$1; R=$2; WT=/tmp/seed$R-$P
cd /verif
WT=$WT tools/confirm_seed.sh $P $P-$R 2>&1 | tail -2 | cut -c1-160
out=$(VERIF_REPO=$WT python3 run.py check $P 2>&1 | grep -v '^KNOWN')
echo "$out" | grep -E "^$P tier|^  \[" | cut -c1-240 | head -3
echo "$out" | grep -q "^VIOLATION" && echo "VERDICT $P-$R CAUGHT" || echo "VERDICT $P-$R MISSED"
git checkout -- evidence 2>/dev/null
