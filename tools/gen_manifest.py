#!/usr/bin/env python3
"""Regenerate MANIFEST.json from lib/props/meta_cXX.py (claims only properties whose check module exists and is
listed in CLAIMED below)."""
import json
import os
import sys

HERE = os.path.dirname(os.path.dirname(os.path.abspath(__file__)))
sys.path.insert(0, HERE)
from lib.props.meta import META  # noqa: E402

TEXT = {
    "C01": ("Every view of every tree reached by trees()/reversed/at/at_index/first/last/aslist, plus edge_diffs/edgesets/coiterate, on thousands of generated tree sequences x option sets is compared with a per-position reference computed from the edge rows.", "reference-model oracle over generated executions (ASan+UBSan build)"),
    "C02": ("An independent validity predicate over the raw rows decides reject/accept/either for ~10^4 valid and singly/multiply corrupted collections (a 378-entry operator catalogue swept round-robin, exact-boundary values, large instances) x index states, entered through every form of tree_sequence()/tskit.load/load_tables; files whose stored index cannot come from dump() are re-packed by an independent kastore writer; the gate must agree with the predicate, raise library errors only, and leave rows untouched.", "reference validity predicate as oracle over fault-injected table collections and re-packed files"),
    "C03": ("Genotypes from variants/decode (any order)/genotype_matrix/haplotypes/alignments with every option are compared with a nearest-mutation reference walk.", "reference-model oracle + history checker over decode orders"),
    "C04": ("simplify output is compared per position with the induced genealogy computed from the input forest for every option combination, plus node map, genotypes, filters and idempotence.", "reference-model post-condition on simplify executions"),
    "C05": ("A FIFO stream model checks multi-object dump/load byte-exactly over files, pipes and sockets in every argument form; dict/pickle/copy round trips, chains of 3-6 transports mirrored on a never-serialised twin, large objects, stale and tie-permuted indexes, and the equals/assert_equals matrix over ignore_* flags are compared with predictions.", "history checker over dump/load event logs + round-trip contracts"),
    "C06": ("Exhaustive depth-bounded navigation histories and long random walks; after every operation the Tree is compared with a fresh Tree at the model index and with the reference forest.", "history checker against a sequential navigation model"),
    "C07": ("sort/canonicalise/repair tools on scrambled collections: permutation, key order, idempotence, start offsets, same trees and genotypes after the repair pipeline, reference mutation parents.", "reference-model post-conditions + metamorphic scrambles"),
    "C08": ("Every statistic is compared with a naive engine written from the documented definitions and with first-principles pairwise definitions; window refinement additivity; threaded == single-threaded; TSan on the GIL-releasing methods.", "naive-definition oracle, metamorphic window law, ThreadSanitizer"),
    "C09": ("A typed catalogue of ~440 public calls x argument slots x boundary values, random programs on corrupted tables and allocation-failure enumeration run on an ASan+UBSan build, plus slices of the same workloads on the plain build under valgrind memcheck (uninitialised-memory use); any sanitizer or memcheck report in tskit code, abort, SystemError, confirmed hang or accepted out-of-range identifier is a violation.", "compiler sanitizers (ASan+UBSan) + valgrind memcheck + process-status oracle over adversarial API workloads; LD_PRELOAD allocation-fault injection"),
    "C10": ("Every truncation offset, every structural byte x 4 patterns, arithmetic-aware descriptor edits, typed special values and boundary ids/offsets/coordinates in every numeric item, random data edits, and files re-packed by an independent kastore writer (items removed, retyped, resized), through 27 loader forms incl. pipes, sockets and the low-level loaders, judged through an independent parse of the file layout.", "fault enumeration over file bytes with layout-aware oracle"),
    "C11": ("keep/delete_intervals, trims, delete_sites, split_edges, decapitate, delete_older, extend_haplotypes compared with documentation-derived expectations per position and per retained row incl. all metadata.", "reference-model post-conditions on editing operations"),
    "C12": ("Random struct/JSON schemas and conforming/non-conforming objects: round trip vs a reference codec written from the docs, byte layout, numpy view, schema string round trip, rejection of invalid objects and schemas.", "reference codec oracle over generated schemas/values"),
    "C13": ("Random operation programs on all eight table classes (free-standing or inside a TableCollection, raw/JSON/struct schemas, rows from other tables and tree sequences) vs a Python list model checked after every operation; every public TreeSequence/Tree/Variant call and every write attempt through a handed-out array or object leaves the tables and the derived state unchanged, and returned arrays are read-only or copies.", "history checker vs list model; immutability invariant hook on every API call"),
    "C14": ("subset and union outputs compared with reference builders for all options; refusal on perturbed shared parts; split/rejoin equals the original after canonicalise.", "reference-model post-conditions + inverse law"),
    "C15": ("Exhaustive rank/unrank bijection and enumeration counts for small n, big-integer ranks for large n, invariance under relabelling, brute-force topology counting vs count_topologies (tree and tree-sequence level).", "exhaustive small-scope enumeration + brute-force oracle"),
    "C16": ("VCF text is parsed and rebuilt from reference genotypes for all argument combinations; mask-form metamorphism and masked-site independence.", "reference-model oracle + metamorphic mask relations"),
    "C17": ("dump_text -> load_text round trip against the reference sort, with permuted/junk/dropped columns.", "round-trip oracle + metamorphic column relations"),
    "C18": ("Own Newick/Nexus/FASTA parsers compare exports with the reference forest, labels, formatted branch lengths, fast vs general path, wrap widths.", "independent parser oracle + differential fast/general path"),
    "C19": ("IBD segments compared with per-pair path-signature runs computed per elementary interval, all filters (both readings at an exact max_time boundary), store options, eleven routes and argument forms, partitions with more than 2^16 sets and pairs with more than 2^16 segments.", "reference-model oracle"),
    "C20": ("map_mutations output is replayed on the reference tree (reproduce), compared with a Sankoff DP optimum, and checked for order/parent/unary-chain rules; exhaustive small trees x genotype vectors, every argument form, fan-outs past 2^8 and 2^16, and a valid call after every refused call on the same Tree.", "reference DP oracle + exhaustive small scope + history (call after refusal)"),
}

NOTE = "Trusts the Python reference model (lib/model.py and the property's own reference code) and tskit's raw column accessors; the verdict is 'held on the executions observed on an ASan+UBSan build of /repo's current sources', never universal."


def main():
    checks = []
    na = []
    for pid in [f"C{k:02d}" for k in range(1, 21)]:
        mod = os.path.join(HERE, "lib", "props", pid.lower() + ".py")
        claimed = open(os.path.join(HERE, "tools", "claimed.txt")).read().split()
        if pid in META and os.path.exists(mod) and pid in claimed:
            text, tech = TEXT[pid]
            checks.append({
                "property_id": pid,
                "quick_cmd": f"python3 run.py check {pid} --tier quick",
                "thorough_cmd": f"python3 run.py check {pid} --tier thorough",
                "evidence_file": f"evidence/{pid}.json",
                "replay_cmd_template": "python3 run.py replay {path}",
                "level_claimed": {"category": META[pid].get("LEVEL", "exploration"), "text": text, "design_ref": f"DESIGN.md 5 {pid}"},
                "level_note": NOTE,
                "technique": "runtime monitoring: " + tech,
            })
        else:
            na.append({"property_id": pid, "reason": "check not registered yet in this revision (see DESIGN.md 5 for the planned monitor)"})
    man = {
        "version": 1,
        "setup_cmd": "python3 build.py asan && python3 build.py plain && python3 build.py tsan && python3 build.py shim",
        "hooks": {
            "guard": "TSKIT_VERIF",
            "enable": "no source hooks in /repo: checks compile /repo's C sources out-of-tree with sanitizer flags (build.py) and attach Python-side monitors from the harness; TSKIT_VERIF=1 is set only inside worker processes",
            "baseline_off_cmd": "cd /repo && /venv/bin/python -m pytest -ra -q -p no:cacheprovider --timeout=900 --continue-on-collection-errors",
            "source_commits": [],
            "add_only": True,
        },
        "engines": [{"name": "run.py", "path": "run.py", "serves_properties": [c["property_id"] for c in checks],
                     "kind_free_text": "subprocess fan-out of generated cases on sanitizer builds; per-property monitors in lib/props"}],
        "checks": checks,
        "notes": "Exit 0 held / 1 violation / 3 inconclusive. known_findings.json lists by-design deviations (KNOWN-FINDING lines) and fixed defects.",
        "not_applicable": na,
    }
    with open(os.path.join(HERE, "MANIFEST.json"), "w") as f:
        json.dump(man, f, indent=1)
    print("claimed", [c["property_id"] for c in checks], "not claimed", [n["property_id"] for n in na])


if __name__ == "__main__":
    main()
