#!/usr/bin/env python3
"""mkmutant.py NAME FILE <<< json [[old,new],...]   -> writes mutants/NAME.patch (diff against /repo HEAD)."""
import json, os, subprocess, sys, tempfile
name, rel = sys.argv[1], sys.argv[2]
pairs = json.load(sys.stdin)
src = open(os.path.join("/repo", rel)).read()
new = src
for old, rep in pairs:
    assert new.count(old) == 1, (name, old[:60], new.count(old))
    new = new.replace(old, rep)
with tempfile.TemporaryDirectory() as d:
    a = os.path.join(d, "a"); b = os.path.join(d, "b")
    os.makedirs(os.path.dirname(os.path.join(a, rel))); os.makedirs(os.path.dirname(os.path.join(b, rel)))
    open(os.path.join(a, rel), "w").write(src); open(os.path.join(b, rel), "w").write(new)
    r = subprocess.run(["diff", "-u", f"a/{rel}", f"b/{rel}"], cwd=d, capture_output=True, text=True)
    open(os.path.join("/verif/mutants", name + ".patch"), "w").write(f"diff --git a/{rel} b/{rel}\n" + r.stdout)
print("wrote", name)
