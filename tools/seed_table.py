#!/usr/bin/env python3
"""Print the markdown table of seeded changes (DESIGN.md section 11) from seeded/*/meta.json, NOTES.json, RESULTS.json."""
import glob, json, os, re
HERE = os.path.dirname(os.path.dirname(os.path.abspath(__file__)))
_n = json.load(open(os.path.join(HERE, "seeded", "NOTES.json")))
notes = _n["missed_first"]
weak = _n.get("weak_first", {})
res = {}
p = os.path.join(HERE, "seeded", "RESULTS.json")
if os.path.exists(p):
    for r in json.load(open(p)):
        res[r.get("seed") or os.path.basename(os.path.dirname(r["patch"]))] = r
def short(t, n):
    t = re.sub(r"\s+", " ", t or "").replace("|", "/")
    return t if len(t) <= n else t[: n - 1] + "…"
print("| seed | change (as described by its author) | needs | first contact | keys reported now |")
print("|---|---|---|---|---|")
for d in sorted(glob.glob(os.path.join(HERE, "seeded", "C*"))):
    name = os.path.basename(d)
    m = json.load(open(os.path.join(d, "meta.json")))
    r = res.get(name, {})
    keys = []
    for v in (r.get("results") or {}).values():
        keys += v.get("keys", [])
    first = "**missed** → " + short(notes[name], 160) if name in notes else (
        "caught, weakly → " + short(weak[name], 160) if name in weak else "caught")
    print(f"| {name} | {short(m.get('summary'), 170)} | {short(m.get('needs_to_manifest'), 150)} | {first} | {short(', '.join(keys[:2]), 110)} |")
