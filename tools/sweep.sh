#!/bin/bash
# sweep.sh SEED TIER [props...]: run checks sequentially, print one line each
S=$1; T=$2; shift 2
HERE=$(cd "$(dirname "$0")/.." && pwd)
PROPS=${@:-$(cat $HERE/tools/claimed.txt)}
for p in $PROPS; do
  out=$(VERIF_SEED=$S python3 $HERE/run.py check $p --tier $T 2>&1); rc=$?
  echo "rc=$rc $(echo "$out" | grep "^$p tier=" | tail -1)"
  if [ $rc -ne 0 ]; then echo "$out" | grep -v "^KNOWN" | head -12 | cut -c1-700; fi
done
