#!/usr/bin/env python3
"""mkseedprompt.py ROUND [CXX ...] : write /tmp/seedprompts/CXX-r<ROUND>.txt from the previous round's prompt.

The prompt given to a seed author contains ONLY the property text, build instructions for its own scratch worktree
and the one-sentence summaries that earlier seed authors wrote about their own changes (seeded/*/meta.json) so that
the new change is different in kind.  Nothing about the checks in /verif goes into it.
"""
import json
import os
import re
import sys

HERE = os.path.dirname(os.path.dirname(os.path.abspath(__file__)))
rnd = int(sys.argv[1])
ids = sys.argv[2:] or [f"C{i:02d}" for i in range(1, 21)]
for p in ids:
    prev = f"/tmp/seedprompts/{p}-r{rnd - 1}.txt"
    s = open(prev).read().replace(f"seed{rnd - 1}-", f"seed{rnd}-")
    meta = json.load(open(os.path.join(HERE, "seeded", f"{p}-{rnd - 1}", "meta.json")))
    n = rnd - 1
    add = (f"  previous change {n}: {meta.get('summary', '')[:600]}\n"
           f"     trigger {n}: {meta.get('needs_to_manifest', '')[:500]}\n")
    marker = "Look for a clause of the property statement"
    assert marker in s
    s = s.replace(marker, add + marker)
    with open(f"/tmp/seedprompts/{p}-r{rnd}.txt", "w") as f:
        f.write(s)
    wt = f"/tmp/seed{rnd}-{p}"
    print(p, len(s), wt)
