#!/bin/bash
# confirm_seed.sh CXX [name]: verify demo fails with the change and passes without, then store under /verif/seeded/
set -u
P=$1; NAME=${2:-$P}; WT=${WT:-/tmp/seed-$P}
cd $WT/python || exit 2
build() { touch _tskitmodule.c lib/tskit/*.c lib/subprojects/kastore/kastore.c; /venv/bin/python setup.py build_ext --inplace >/dev/null 2>&1; }
demo() { PYTHONPATH=$WT/python timeout 900 /venv/bin/python $WT/SEED/demo.py > /tmp/seed-demo-$P.out 2>&1; echo $?; }
git -C $WT checkout -q -- c python 2>/dev/null; git -C $WT apply $WT/SEED/patch.diff || { echo "patch does not apply to a clean tree"; exit 2; }
build; WITH=$(demo); tail -2 /tmp/seed-demo-$P.out | cut -c1-300
git -C $WT apply -R $WT/SEED/patch.diff || { echo "patch does not reverse-apply"; exit 2; }
build; WITHOUT=$(demo); tail -2 /tmp/seed-demo-$P.out | cut -c1-300
git -C $WT apply $WT/SEED/patch.diff; 
echo "demo exit with change=$WITH without=$WITHOUT"
if [ "$WITH" != "0" ] && [ "$WITHOUT" = "0" ]; then
  D=/verif/seeded/$NAME; mkdir -p $D; cp $WT/SEED/patch.diff $WT/SEED/demo.py $WT/SEED/meta.json $D/
  echo "stored in $D"
else echo "NOT CONFIRMED"; fi
