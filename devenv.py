#!/usr/bin/env python3
"""Print shell exports for an interactive python running /repo's tskit on the asan build.
   eval $(python3 /verif/devenv.py [variant])"""
import os
import shlex
import sys

sys.path.insert(0, os.path.dirname(os.path.abspath(__file__)))
import build as B

v = sys.argv[1] if len(sys.argv) > 1 else "asan"
bd = B.build(v)
env = B.run_env(v, bd)
for k in ("PYTHONPATH", "LD_PRELOAD", "ASAN_OPTIONS", "UBSAN_OPTIONS", "VERIF_BUILDDIR", "VERIF_REPO", "PYTHONHASHSEED", "TSAN_OPTIONS"):
    if k in env:
        print(f"export {k}={shlex.quote(env[k])};")
